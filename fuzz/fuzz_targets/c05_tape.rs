#![no_main]
//! The C05 case function driven by a libFuzzer-provided choice tape.
use libfuzzer_sys::fuzz_target;
use std::sync::Once;

static INIT: Once = Once::new();

fuzz_target!(|data: &[u8]| {
    INIT.call_once(|| {
        tsgv::engine::install_panic_hook();
    });
    let tape: Vec<u32> = data.chunks(4).map(|c| {
        let mut b = [0u8; 4];
        b[..c.len()].copy_from_slice(c);
        u32::from_le_bytes(b)
    }).collect();
    if let tsgv::engine::CaseOutcome::Fail(f) = tsgv::props::c05::case(&tape) {
        panic!("C05 violation {}: {}", f.signature, f.message);
    }
});
