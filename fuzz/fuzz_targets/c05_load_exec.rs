#![no_main]
//! Raw DSL text: File::from_str returns; accepted files execute in both modes; errors render.
use libfuzzer_sys::fuzz_target;
use std::collections::BTreeMap;
use std::sync::Once;

static INIT: Once = Once::new();

fuzz_target!(|data: &[u8]| {
    INIT.call_once(|| {
        tsgv::engine::install_panic_hook();
    });
    let text = match std::str::from_utf8(data) {
        Ok(t) => t,
        Err(_) => return,
    };
    if tsgv::props::c05::bracket_depth(text) > 64 {
        return;
    }
    // the first byte picks the tree the file runs on
    let sources = ["pass\n", "a.b(c)\nprint d, é\n", "x = (\n", "def f(a):\n    return a\n"];
    let source = sources[data.first().copied().unwrap_or(0) as usize % sources.len()];
    if let Err(f) = tsgv::props::c05::exercise(text, source, &BTreeMap::new()) {
        // restore stderr-less abort: libFuzzer stores the input as the crash artifact
        panic!("C05 violation {}: {}", f.signature, f.message);
    }
});
