#![no_main]
//! Raw Python text: parse-error discovery equals the recursive outermost-error walk; display works.
use libfuzzer_sys::fuzz_target;
use std::sync::Once;

static INIT: Once = Once::new();

fuzz_target!(|data: &[u8]| {
    INIT.call_once(|| {
        tsgv::engine::install_panic_hook();
    });
    let text = match std::str::from_utf8(data) {
        Ok(t) => t,
        Err(_) => return,
    };
    if let Err(f) = tsgv::props::c18::check_source(text) {
        panic!("C18 violation {}: {}", f.signature, f.message);
    }
});
