#!/bin/bash
# Builds everything the checks need, offline, from files on disk only.
set -e
here="$(cd "$(dirname "$0")" && pwd)"
export CARGO_NET_OFFLINE=true
(cd "$here/harness" && cargo build --release 2>&1 | grep -v conda | tail -3)
"$here/tools/cli_env.sh"
echo "setup done"
