//! Query pool for the Python grammar.  Patterns carry `{name}` placeholders for capture names; the
//! capture quantifiers are taken from tree-sitter itself (compiled stand-alone, i.e. independent of
//! the library's merged file query and its per-stanza index tables).

use crate::dsl::{Cap, Quant};
use crate::pysrc;
use std::cell::RefCell;
use std::collections::HashMap;
use std::rc::Rc;
use tree_sitter::{CaptureQuantifier, Query};

pub struct PoolEntry {
    pub pattern: &'static str,
    /// placeholder -> node kinds the capture can bind ("*" = anything)
    pub caps: &'static [(&'static str, &'static str)],
    /// Some(kind): the pattern matches every node of that kind exactly once, capturing it as the
    /// first placeholder (used to define scoped variables "on all nodes of a kind")
    pub covers: Option<&'static str>,
    /// pattern has several root captures or a quantified root (known finding D7): never generated
    /// outside C05
    pub d7: bool,
}

macro_rules! pe {
    ($p:expr, [$(($n:expr, $k:expr)),*], $c:expr) => {
        PoolEntry { pattern: $p, caps: &[$(($n, $k)),*], covers: $c, d7: false }
    };
}

pub const POOL: &[PoolEntry] = &[
    pe!("(module) @{m}", [("m", "module")], Some("module")),
    pe!("(identifier) @{x}", [("x", "identifier")], Some("identifier")),
    pe!("(pass_statement) @{p}", [("p", "pass_statement")], Some("pass_statement")),
    pe!("(call) @{c}", [("c", "call")], Some("call")),
    pe!("(expression_statement (_) @{e}) @{s}", [("e", "*"), ("s", "expression_statement")], None),
    pe!("(call function: (identifier) @{f} arguments: (argument_list) @{a}) @{c}", [("f", "identifier"), ("a", "argument_list"), ("c", "call")], None),
    pe!("(call function: (_) @{f}) @{c}", [("f", "*"), ("c", "call")], None),
    pe!("(attribute object: (_) @{o} attribute: (identifier) @{a})", [("o", "*"), ("a", "identifier")], None),
    pe!("(import_statement name: (dotted_name) @{n})", [("n", "dotted_name")], None),
    pe!("(import_from_statement module_name: (dotted_name) @{m} name: (dotted_name)* @{ns})", [("m", "dotted_name"), ("ns", "dotted_name")], None),
    pe!("(function_definition name: (identifier) @{n} parameters: (parameters) @{p} body: (block) @{b}) @{d}", [("n", "identifier"), ("p", "parameters"), ("b", "block"), ("d", "function_definition")], None),
    pe!("(class_definition name: (identifier) @{n}) @{c}", [("n", "identifier"), ("c", "class_definition")], None),
    pe!("(module (_)* @{ss}) @{m}", [("ss", "*"), ("m", "module")], None),
    pe!("(block (_)+ @{ss}) @{b}", [("ss", "*"), ("b", "block")], None),
    pe!("(argument_list (_)? @{first}) @{al}", [("first", "*"), ("al", "argument_list")], None),
    pe!("[(identifier) (integer)] @{x}", [("x", "identifier|integer")], None),
    pe!("[(pass_statement) @{p} (expression_statement) @{e}]", [("p", "pass_statement"), ("e", "expression_statement")], None),
    pe!("(assignment left: (identifier) @{l} right: (_) @{r}) @{a}", [("l", "identifier"), ("r", "*"), ("a", "assignment")], None),
    pe!("(if_statement condition: (_) @{c} consequence: (block) @{b} alternative: (_)? @{alt}) @{i}", [("c", "*"), ("b", "block"), ("alt", "*"), ("i", "if_statement")], None),
    pe!("((identifier) @{x} (#eq? @{x} \"a\"))", [("x", "identifier")], None),
    pe!("((identifier) @{x} (#match? @{x} \"^[a-c]\"))", [("x", "identifier")], None),
    pe!("(dotted_name . (identifier) @{first})", [("first", "identifier")], None),
    pe!("(dotted_name (identifier) @{last} .)", [("last", "identifier")], None),
    pe!("(return_statement (_)? @{v}) @{r}", [("v", "*"), ("r", "return_statement")], None),
    pe!("(dotted_name (identifier)+ @{parts}) @{d}", [("parts", "identifier"), ("d", "dotted_name")], None),
    pe!("(call arguments: (argument_list (_)* @{args})) @{c}", [("args", "*"), ("c", "call")], None),
    pe!("(parameters (identifier)* @{ps}) @{p}", [("ps", "identifier"), ("p", "parameters")], None),
    pe!("(for_statement left: (_) @{l} right: (_) @{r} body: (block) @{b})", [("l", "*"), ("r", "*"), ("b", "block")], None),
    pe!("(while_statement condition: (_) @{c}) @{w}", [("c", "*"), ("w", "while_statement")], None),
    pe!("(print_statement argument: (_)+ @{args}) @{p}", [("args", "*"), ("p", "print_statement")], None),
    pe!("(string) @{s}", [("s", "string")], Some("string")),
    pe!("(integer) @{i}", [("i", "integer")], Some("integer")),
    pe!("(binary_operator left: (_) @{l} right: (_) @{r}) @{b}", [("l", "*"), ("r", "*"), ("b", "binary_operator")], None),
    pe!("(_) @{any}", [("any", "*")], None),
    pe!("(ERROR) @{e}", [("e", "ERROR")], None),
    pe!("(module (expression_statement (identifier) @{id}))", [("id", "identifier")], None),
    pe!("(function_definition body: (block (return_statement) @{r}))", [("r", "return_statement")], None),
    pe!("(call\n  ; the callee\n  function: (identifier) @{f})", [("f", "identifier")], None),
    pe!("(attribute object: (identifier) @{o}) @{a}", [("o", "identifier"), ("a", "attribute")], None),
    pe!("(class_definition body: (block (function_definition name: (identifier) @{m})))", [("m", "identifier")], None),
    pe!("(identifier) @{x} @{y}", [("x", "identifier"), ("y", "identifier")], None),
    pe!("(call (identifier) @{f} . (argument_list) @{a})", [("f", "identifier"), ("a", "argument_list")], None),
    pe!("(list (_)* @{items}) @{l}", [("items", "*"), ("l", "list")], None),
    pe!("(attribute) @{a}", [("a", "attribute")], Some("attribute")),
    pe!("(dotted_name) @{d}", [("d", "dotted_name")], Some("dotted_name")),
    pe!("(block) @{b}", [("b", "block")], Some("block")),
    pe!("(function_definition) @{d}", [("d", "function_definition")], Some("function_definition")),
    pe!("(expression_statement) @{s}", [("s", "expression_statement")], Some("expression_statement")),
    pe!("(argument_list) @{al}", [("al", "argument_list")], Some("argument_list")),
    // one capture name on a node and on a descendant that starts at the same byte
    pe!("(call function: (_) @{part}) @{part}", [("part", "*")], None),
    pe!("(attribute object: (_) @{both} attribute: (_) @{both}) @{both}", [("both", "*")], None),
    // a root quantified with `+`: one match may hold several sibling roots
    pe!("(pass_statement)+ @{ps}", [("ps", "pass_statement")], None),
    pe!("(expression_statement)+ @{es}", [("es", "expression_statement")], None),
    // a bare wildcard at the start of the query text; stanzas without any capture
    pe!("_ @{tok}", [("tok", "*")], None),
    pe!("(pass_statement)", [], None),
    pe!("(module)", [], None),
    // a capture on a group whose head is optional: tree-sitter hands out two nodes for it when
    // the head is present (the value is the node that starts the group)
    pe!("((comment)? @{c} (function_definition) @{f}) @{grp}", [("c", "comment"), ("f", "function_definition"), ("grp", "*")], None),
    pe!("(module ((comment)? @{c} . (pass_statement) @{p})? @{g})", [("c", "comment"), ("p", "pass_statement"), ("g", "*")], None),
    // list captures whose nodes are interleaved with those of another capture
    pe!("(module ((comment) @{c} (pass_statement) @{p})*)", [("c", "comment"), ("p", "pass_statement")], None),
    pe!("(module [(expression_statement) @{e} (pass_statement) @{p}]+)", [("e", "expression_statement"), ("p", "pass_statement")], None),
    pe!("(assignment left: (identifier) @{side} type: (type) @{t} right: (_) @{side})", [("side", "*"), ("t", "type")], None),
    pe!("(block [(expression_statement) @{e} (return_statement) @{r} (pass_statement) @{p}]*) @{b}", [("e", "expression_statement"), ("r", "return_statement"), ("p", "pass_statement"), ("b", "block")], None),
];

/// Patterns of the D7 class (root with three user captures, quantified root).
pub const D7_POOL: &[PoolEntry] = &[
    PoolEntry { pattern: "(module) @{a} @{b} @{c}", caps: &[("a", "module"), ("b", "module"), ("c", "module")], covers: None, d7: true },
    PoolEntry { pattern: "(identifier)* @{xs}", caps: &[("xs", "identifier")], covers: None, d7: true },
    PoolEntry { pattern: "(pass_statement)? @{p}", caps: &[("p", "pass_statement")], covers: None, d7: true },
];

pub fn quant_of(q: CaptureQuantifier) -> Option<Quant> {
    match q {
        CaptureQuantifier::Zero => None,
        CaptureQuantifier::One => Some(Quant::One),
        CaptureQuantifier::ZeroOrOne => Some(Quant::Opt),
        CaptureQuantifier::ZeroOrMore => Some(Quant::Star),
        CaptureQuantifier::OneOrMore => Some(Quant::Plus),
    }
}

/// Substitute capture names into a pool pattern.
pub fn instantiate(pattern: &str, names: &[(&str, String)]) -> String {
    let mut out = pattern.to_string();
    for (ph, name) in names {
        out = out.replace(&format!("{{{}}}", ph), name);
    }
    out
}

pub const REF_ROOT: &str = "__ref_root";

pub struct CompiledQuery {
    /// the pattern exactly as written
    pub plain: Query,
    /// the same text with an appended root capture (named differently from the library's)
    pub rooted: Query,
    pub root_index: u32,
    pub captures: Vec<Cap>,
}

thread_local! {
    static CACHE: RefCell<HashMap<String, Option<Rc<CompiledQuery>>>> = RefCell::new(HashMap::new());
}

/// Compile a query text on its own (cached per thread).  None if tree-sitter rejects it.
pub fn compile(text: &str) -> Option<Rc<CompiledQuery>> {
    CACHE.with(|c| {
        if let Some(v) = c.borrow().get(text) {
            return v.clone();
        }
        let lang = pysrc::lang();
        let res = (|| {
            let plain = Query::new(&lang, text).ok()?;
            if plain.pattern_count() != 1 {
                return None;
            }
            let rooted = Query::new(&lang, &format!("{} @{}", text, REF_ROOT)).ok()?;
            let root_index = rooted.capture_index_for_name(REF_ROOT)?;
            let quants = plain.capture_quantifiers(0);
            let mut captures = vec![];
            for (i, name) in plain.capture_names().iter().enumerate() {
                if let Some(q) = quant_of(quants[i]) {
                    captures.push(Cap { name: name.to_string(), quant: q });
                }
            }
            Some(Rc::new(CompiledQuery { plain, rooted, root_index, captures }))
        })();
        if c.borrow().len() > 4000 {
            c.borrow_mut().clear();
        }
        c.borrow_mut().insert(text.to_string(), res.clone());
        res
    })
}
