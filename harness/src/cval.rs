//! S5 — canonical values and graphs, observation of library graphs through the public API, and
//! equality up to renumbering of graph nodes.

use crate::tree::TreeIndex;
use serde_json::{json, Value as J};
use std::collections::{BTreeMap, BTreeSet};
use tree_sitter_graph::graph::{Graph, Value};

/// Variant order mirrors the library's `Value` (Null < Bool < Int < Str < List < Set < Syn < GNode)
/// so that sets iterate in the same order wherever element order is observable.
#[derive(Clone, PartialEq, Eq, PartialOrd, Ord, Hash, Debug)]
pub enum CVal {
    Null,
    Bool(bool),
    Int(u32),
    Str(String),
    List(Vec<CVal>),
    Set(BTreeSet<CVal>),
    /// syntax node, by pre-order number
    Syn(usize),
    /// graph node, by index
    GNode(usize),
}

impl CVal {
    pub fn type_name(&self) -> &'static str {
        match self {
            CVal::Null => "null",
            CVal::Bool(_) => "bool",
            CVal::Int(_) => "int",
            CVal::Str(_) => "string",
            CVal::List(_) => "list",
            CVal::Set(_) => "set",
            CVal::Syn(_) => "syntax-node",
            CVal::GNode(_) => "graph-node",
        }
    }

    pub fn has_gnode(&self) -> bool {
        match self {
            CVal::GNode(_) => true,
            CVal::List(xs) => xs.iter().any(|x| x.has_gnode()),
            CVal::Set(xs) => xs.iter().any(|x| x.has_gnode()),
            _ => false,
        }
    }

    pub fn has_syn(&self) -> bool {
        match self {
            CVal::Syn(_) => true,
            CVal::List(xs) => xs.iter().any(|x| x.has_syn()),
            CVal::Set(xs) => xs.iter().any(|x| x.has_syn()),
            _ => false,
        }
    }

    /// Rename graph nodes.
    pub fn map_gnodes(&self, f: &dyn Fn(usize) -> usize) -> CVal {
        match self {
            CVal::GNode(n) => CVal::GNode(f(*n)),
            CVal::List(xs) => CVal::List(xs.iter().map(|x| x.map_gnodes(f)).collect()),
            CVal::Set(xs) => CVal::Set(xs.iter().map(|x| x.map_gnodes(f)).collect()),
            other => other.clone(),
        }
    }

    /// The value with graph-node references abstracted away (for colouring).
    pub fn shape(&self) -> CVal {
        self.map_gnodes(&|_| 0)
    }

    pub fn gnodes(&self, out: &mut Vec<usize>) {
        match self {
            CVal::GNode(n) => out.push(*n),
            CVal::List(xs) => xs.iter().for_each(|x| x.gnodes(out)),
            CVal::Set(xs) => xs.iter().for_each(|x| x.gnodes(out)),
            _ => {}
        }
    }

    pub fn to_json(&self) -> J {
        match self {
            CVal::Null => J::Null,
            CVal::Bool(b) => json!(b),
            CVal::Int(i) => json!(i),
            CVal::Str(s) => json!(s),
            CVal::List(xs) => J::Array(xs.iter().map(|x| x.to_json()).collect()),
            CVal::Set(xs) => json!({"set": xs.iter().map(|x| x.to_json()).collect::<Vec<_>>()}),
            CVal::Syn(n) => json!({"syn": n}),
            CVal::GNode(n) => json!({"gnode": n}),
        }
    }
}

/// Converts a library value; syntax nodes are resolved to pre-order numbers through the graph.
pub fn from_value(v: &Value, graph: &Graph, index: &TreeIndex) -> Result<CVal, String> {
    Ok(match v {
        Value::Null => CVal::Null,
        Value::Boolean(b) => CVal::Bool(*b),
        Value::Integer(i) => CVal::Int(*i),
        Value::String(s) => CVal::Str(s.clone()),
        Value::List(xs) => CVal::List(xs.iter().map(|x| from_value(x, graph, index)).collect::<Result<_, _>>()?),
        Value::Set(xs) => CVal::Set(xs.iter().map(|x| from_value(x, graph, index)).collect::<Result<_, _>>()?),
        Value::SyntaxNode(r) => {
            let node = &graph[*r];
            match index.pre_of(node) {
                Some(p) => CVal::Syn(p),
                None => return Err(format!("syntax node reference {} does not belong to the tree", r)),
            }
        }
        Value::GraphNode(r) => CVal::GNode(r.index()),
    })
}

#[derive(Clone, Default, PartialEq, Eq, Debug)]
pub struct MNode {
    pub attrs: BTreeMap<String, CVal>,
    pub edges: BTreeMap<usize, BTreeMap<String, CVal>>,
}

#[derive(Clone, Default, PartialEq, Eq, Debug)]
pub struct MGraph {
    pub nodes: Vec<MNode>,
}

impl MGraph {
    pub fn edge_count(&self) -> usize {
        self.nodes.iter().map(|n| n.edges.len()).sum()
    }
    pub fn attr_count(&self) -> usize {
        self.nodes
            .iter()
            .map(|n| n.attrs.len() + n.edges.values().map(|e| e.len()).sum::<usize>())
            .sum()
    }
    pub fn to_json(&self) -> J {
        J::Array(
            self.nodes
                .iter()
                .enumerate()
                .map(|(i, n)| {
                    json!({
                        "node": i,
                        "attrs": n.attrs.iter().map(|(k, v)| (k.clone(), v.to_json())).collect::<serde_json::Map<_, _>>(),
                        "edges": n.edges.iter().map(|(s, a)| json!({"sink": s, "attrs": a.iter().map(|(k, v)| (k.clone(), v.to_json())).collect::<serde_json::Map<_, _>>()})).collect::<Vec<_>>(),
                    })
                })
                .collect(),
        )
    }
    /// Short textual rendering for samples.
    pub fn summary(&self) -> String {
        format!("{} nodes, {} edges, {} attributes", self.nodes.len(), self.edge_count(), self.attr_count())
    }
}

/// Obs(graph): read the library graph through its public API only.
pub fn observe(graph: &Graph, index: &TreeIndex) -> Result<MGraph, String> {
    let mut out = MGraph::default();
    for (i, r) in graph.iter_nodes().enumerate() {
        if r.index() != i {
            return Err(format!("iter_nodes position {} yields index {}", i, r.index()));
        }
        let node = &graph[r];
        let mut m = MNode::default();
        for (k, v) in node.attributes.iter() {
            if m.attrs.insert(k.to_string(), from_value(v, graph, index)?).is_some() {
                return Err(format!("attribute {} listed twice on node {}", k, i));
            }
        }
        let mut last: Option<usize> = None;
        for (sink, edge) in node.iter_edges() {
            if let Some(l) = last {
                if sink.index() <= l {
                    return Err(format!("iter_edges of node {} is not strictly ascending ({} after {})", i, sink.index(), l));
                }
            }
            last = Some(sink.index());
            if sink.index() >= graph.node_count() {
                return Err(format!("edge {} -> {} points outside the graph", i, sink.index()));
            }
            let mut attrs = BTreeMap::new();
            for (k, v) in edge.attributes.iter() {
                attrs.insert(k.to_string(), from_value(v, graph, index)?);
            }
            m.edges.insert(sink.index(), attrs);
        }
        out.nodes.push(m);
    }
    if out.nodes.len() != graph.node_count() {
        return Err(format!("node_count {} but iter_nodes yields {}", graph.node_count(), out.nodes.len()));
    }
    Ok(out)
}

// ------------------------------------------------------------------------------------------------
// Isomorphism up to graph-node renumbering

pub enum Iso {
    /// isomorphic, with the mapping a-node -> b-node
    Yes(Vec<usize>),
    No(String),
    Inconclusive,
}

fn apply(g: &MGraph, map: &[usize]) -> MGraph {
    // node i of g becomes node map[i]
    let f = |n: usize| map.get(n).copied().unwrap_or(usize::MAX);
    let mut out = MGraph { nodes: vec![MNode::default(); g.nodes.len()] };
    for (i, n) in g.nodes.iter().enumerate() {
        let m = &mut out.nodes[map[i]];
        m.attrs = n.attrs.iter().map(|(k, v)| (k.clone(), v.map_gnodes(&f))).collect();
        m.edges = n
            .edges
            .iter()
            .map(|(s, a)| (f(*s), a.iter().map(|(k, v)| (k.clone(), v.map_gnodes(&f))).collect()))
            .collect();
    }
    out
}

type Colour = u64;

fn colours(g: &MGraph, fixed: usize) -> Vec<Colour> {
    use crate::engine::fingerprint;
    let n = g.nodes.len();
    let mut incoming: Vec<Vec<(usize, BTreeMap<String, CVal>)>> = vec![vec![]; n];
    for (i, node) in g.nodes.iter().enumerate() {
        for (s, a) in &node.edges {
            if *s < n {
                incoming[*s].push((i, a.iter().map(|(k, v)| (k.clone(), v.shape())).collect()));
            }
        }
    }
    let mut col: Vec<Colour> = g
        .nodes
        .iter()
        .enumerate()
        .map(|(i, node)| {
            let attrs: Vec<(String, CVal)> = node.attrs.iter().map(|(k, v)| (k.clone(), v.shape())).collect();
            let pin = if i < fixed { i as i64 } else { -1 };
            fingerprint(&(pin, attrs, node.edges.len(), incoming[i].len()))
        })
        .collect();
    for _round in 0..n.min(12) + 1 {
        let next: Vec<Colour> = (0..n)
            .map(|i| {
                let node = &g.nodes[i];
                let mut outs: Vec<(Colour, Vec<(String, CVal)>)> = node
                    .edges
                    .iter()
                    .map(|(s, a)| (if *s < n { col[*s] } else { 0 }, a.iter().map(|(k, v)| (k.clone(), v.shape())).collect()))
                    .collect();
                outs.sort();
                let mut ins: Vec<(Colour, Vec<(String, CVal)>)> =
                    incoming[i].iter().map(|(s, a)| (col[*s], a.iter().map(|(k, v)| (k.clone(), v.clone())).collect())).collect();
                ins.sort();
                // graph nodes referenced from attribute values (of the node and of its edges)
                let mut refs: Vec<(String, Vec<Colour>)> = vec![];
                for (k, v) in &node.attrs {
                    let mut r = vec![];
                    v.gnodes(&mut r);
                    if !r.is_empty() {
                        let mut c: Vec<Colour> = r.iter().map(|x| if *x < n { col[*x] } else { 0 }).collect();
                        if matches!(v, CVal::Set(_)) {
                            c.sort();
                        }
                        refs.push((k.clone(), c));
                    }
                }
                fingerprint(&(col[i], outs, ins, refs))
            })
            .collect();
        let before: BTreeSet<Colour> = col.iter().copied().collect();
        let after: BTreeSet<Colour> = next.iter().copied().collect();
        col = next;
        if before.len() == after.len() {
            break;
        }
    }
    col
}

/// Decide whether `a` and `b` are equal up to renumbering of graph nodes, keeping the first
/// `fixed` nodes in place.
pub fn isomorphic(a: &MGraph, b: &MGraph, fixed: usize) -> Iso {
    if a.nodes.len() != b.nodes.len() {
        return Iso::No(format!("node counts differ: {} vs {}", a.nodes.len(), b.nodes.len()));
    }
    if a.edge_count() != b.edge_count() {
        return Iso::No(format!("edge counts differ: {} vs {}", a.edge_count(), b.edge_count()));
    }
    let n = a.nodes.len();
    let identity: Vec<usize> = (0..n).collect();
    if a == b {
        return Iso::Yes(identity);
    }
    let ca = colours(a, fixed);
    let cb = colours(b, fixed);
    let mut ha: Vec<Colour> = ca.clone();
    let mut hb: Vec<Colour> = cb.clone();
    ha.sort();
    hb.sort();
    if ha != hb {
        return Iso::No(diff_summary(a, b));
    }
    // candidates per a-node
    let mut classes: BTreeMap<Colour, Vec<usize>> = BTreeMap::new();
    for (j, c) in cb.iter().enumerate() {
        classes.entry(*c).or_default().push(j);
    }
    // order a-nodes: smallest classes first
    let mut order: Vec<usize> = (0..n).collect();
    order.sort_by_key(|i| (classes[&ca[*i]].len(), *i));
    let mut map = vec![usize::MAX; n];
    let mut used = vec![false; n];
    let mut budget: u64 = 200_000;
    fn search(
        k: usize,
        order: &[usize],
        ca: &[Colour],
        classes: &BTreeMap<Colour, Vec<usize>>,
        map: &mut Vec<usize>,
        used: &mut Vec<bool>,
        a: &MGraph,
        b: &MGraph,
        budget: &mut u64,
    ) -> Option<bool> {
        if *budget == 0 {
            return None;
        }
        *budget -= 1;
        if k == order.len() {
            return Some(&apply(a, map) == b);
        }
        let i = order[k];
        for &j in &classes[&ca[i]] {
            if used[j] {
                continue;
            }
            // local consistency: edges to already mapped nodes must exist in b with equal shapes
            let mut ok = true;
            for (s, attrs) in &a.nodes[i].edges {
                let ms = if *s == i { j } else { map[*s] };
                if ms != usize::MAX {
                    match b.nodes[j].edges.get(&ms) {
                        Some(battrs) => {
                            if attrs.len() != battrs.len() {
                                ok = false;
                                break;
                            }
                        }
                        None => {
                            ok = false;
                            break;
                        }
                    }
                }
            }
            if !ok {
                continue;
            }
            map[i] = j;
            used[j] = true;
            match search(k + 1, order, ca, classes, map, used, a, b, budget) {
                Some(true) => return Some(true),
                None => return None,
                Some(false) => {}
            }
            map[i] = usize::MAX;
            used[j] = false;
        }
        Some(false)
    }
    match search(0, &order, &ca, &classes, &mut map, &mut used, a, b, &mut budget) {
        Some(true) => Iso::Yes(map),
        Some(false) => Iso::No(diff_summary(a, b)),
        None => Iso::Inconclusive,
    }
}

fn diff_summary(a: &MGraph, b: &MGraph) -> String {
    // describe the first index-wise difference (most runs number nodes identically)
    for i in 0..a.nodes.len().min(b.nodes.len()) {
        if a.nodes[i] != b.nodes[i] {
            return format!(
                "no renumbering makes the graphs equal; first index-wise difference at node {}: {:?} vs {:?}",
                i, a.nodes[i], b.nodes[i]
            );
        }
    }
    "no renumbering makes the graphs equal".to_string()
}

/// Display of a value as the library's `Display` for `Value` renders it (used by format / join).
pub fn display(v: &CVal, index: &TreeIndex) -> String {
    match v {
        CVal::Null => "#null".to_string(),
        CVal::Bool(true) => "#true".to_string(),
        CVal::Bool(false) => "#false".to_string(),
        CVal::Int(i) => format!("{}", i),
        CVal::Str(s) => s.clone(),
        CVal::List(xs) => format!("[{}]", xs.iter().map(|x| display(x, index)).collect::<Vec<_>>().join(", ")),
        CVal::Set(xs) => format!("{{{}}}", xs.iter().map(|x| display(x, index)).collect::<Vec<_>>().join(", ")),
        CVal::Syn(p) => {
            let n = &index.nodes[*p];
            format!("[syntax node {} ({}, {})]", n.kind, n.start_row + 1, n.start_col + 1)
        }
        CVal::GNode(n) => format!("[graph node {}]", n),
    }
}

/// Debug rendering (`{:?}` of the library's Value), used by pretty_print: strings are quoted.
pub fn debug(v: &CVal, index: &TreeIndex) -> String {
    match v {
        CVal::Str(s) => format!("{:?}", s),
        CVal::List(xs) => format!("[{}]", xs.iter().map(|x| debug(x, index)).collect::<Vec<_>>().join(", ")),
        CVal::Set(xs) => format!("{{{}}}", xs.iter().map(|x| debug(x, index)).collect::<Vec<_>>().join(", ")),
        other => display(other, index),
    }
}
