//! tsgv — property-based verification harness for tree-sitter-graph.
//!
//! usage: tsgv <ID> <quick|thorough>
//!        tsgv <ID> --replay <file>

mod engine;
mod props;

fn usage() -> ! {
    eprintln!("usage: tsgv <ID> <quick|thorough> | tsgv <ID> --replay <file>");
    std::process::exit(2);
}

fn main() {
    let args: Vec<String> = std::env::args().collect();
    if args.len() < 3 {
        usage();
    }
    let id = args[1].as_str();
    engine::install_panic_hook();
    engine::silence_stderr();
    let code = if args[2] == "--replay" {
        if args.len() < 4 {
            usage();
        }
        let path = args[3].as_str();
        match id {
            "C17" => engine::replay_file(id, path, props::c17::case),
            _ => {
                println!("unknown property {}", id);
                2
            }
        }
    } else {
        let tier = args[2].as_str();
        match id {
            "C17" => props::c17::run(tier),
            _ => {
                println!("unknown property {}", id);
                2
            }
        }
    };
    std::process::exit(code);
}
