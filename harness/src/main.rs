//! tsgv — property-based verification harness for tree-sitter-graph.
//!
//! usage: tsgv <ID> <quick|thorough>
//!        tsgv <ID> --replay <file>
//!        tsgv gen <profile> <seed-words...>     (debugging aid: print a generated program)


use tsgv::{dsl, engine, gen, props};

fn usage() -> ! {
    eprintln!("usage: tsgv <ID> <quick|thorough> | tsgv <ID> --replay <file>");
    std::process::exit(2);
}

fn main() {
    let args: Vec<String> = std::env::args().collect();
    if args.len() < 3 {
        usage();
    }
    let id = args[1].as_str();
    engine::install_panic_hook();
    if id == "gen" {
        let words: Vec<u32> = args[3..].iter().filter_map(|s| s.parse().ok()).collect();
        let mut t = engine::Tape::new(&words);
        let cfg = match args[2].as_str() {
            "fragment" => gen::GenCfg::fragment(),
            _ => gen::GenCfg::full(),
        };
        let g = gen::generate(&mut t, &cfg);
        println!("{}", dsl::print_canonical(&g.prog).text);
        println!("; globals: {:?}", g.globals);
        println!("; features: {:?} fault: {:?}", g.features, g.fault);
        return;
    }
    if id == "sexp" {
        // debugging aid: the syntax tree of a Python text and its outermost error nodes
        let text = args[2].replace("\\n", "\n");
        let tree = tsgv::pysrc::parse(&text);
        println!("{}", tree.root_node().to_sexp());
        println!("{:?}", props::c18::expected_errors(&tree));
        return;
    }
    if id == "C05" && args.get(2).map(|a| a == "--crash-probe").unwrap_or(false) {
        props::c05::crash_probe_child();
        return;
    }
    engine::silence_stderr();
    if id == "C12" && args[2] == "--child" {
        let seed: u64 = args.get(3).and_then(|s| s.parse().ok()).unwrap_or(1);
        let n: usize = args.get(4).and_then(|s| s.parse().ok()).unwrap_or(10);
        props::c12::child_main(seed, n);
        return;
    }
    let entry = match props::PROPS.iter().find(|p| p.id == id) {
        Some(e) => e,
        None => {
            println!("unknown property {}", id);
            std::process::exit(2);
        }
    };
    engine::install_crash_handler(id);
    engine::start_watchdog(id);
    let code = if args[2] == "--replay" {
        if args.len() < 4 {
            usage();
        }
        engine::replay_file(id, &args[3], entry.case)
    } else {
        (entry.run)(args[2].as_str())
    };
    std::process::exit(code);
}
