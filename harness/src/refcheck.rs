//! S7 — reference checker: the static rules of the language reference as a function
//! GProg -> violations (rule, the name involved, the locations at which it may be reported).

use crate::dsl::*;
use std::collections::{BTreeMap, BTreeSet};

#[derive(Clone, Copy, Debug, PartialEq, Eq, PartialOrd, Ord)]
pub enum Rule {
    UndefinedVariable,
    Redefinition,
    SetImmutable,
    SetUndefined,
    SetGlobal,
    HideGlobal,
    DuplicateGlobal,
    UnusedCapture,
    UndefinedCapture,
    NonLocal,
    NotOptional,
    NotList,
    NullableRegex,
}

impl Rule {
    /// prefix of the Debug rendering of the library's check error for this rule
    pub fn debug_prefix(self) -> &'static str {
        match self {
            Rule::UndefinedVariable => "UndefinedVariable(",
            Rule::Redefinition => "Variable(VariableAlreadyDefined(",
            Rule::SetImmutable => "Variable(CannotAssignImmutableVariable(",
            Rule::SetUndefined => "Variable(UndefinedVariable(",
            Rule::SetGlobal => "CannotSetGlobalVariable(",
            Rule::HideGlobal => "CannotHideGlobalVariable(",
            Rule::DuplicateGlobal => "DuplicateGlobalVariable(",
            Rule::UnusedCapture => "UnusedCaptures(",
            Rule::UndefinedCapture => "UndefinedSyntaxCapture(",
            Rule::NonLocal => "ExpectedLocalValue(",
            Rule::NotOptional => "ExpectedOptionalValue(",
            Rule::NotList => "ExpectedListValue(",
            Rule::NullableRegex => "NullableRegex(",
        }
    }
}

#[derive(Clone, Debug)]
pub struct Violation {
    pub rule: Rule,
    /// the variable / capture / regex the diagnostic must name (empty: none)
    pub name: String,
    /// ids of the constructs at whose first character the violation may be reported
    pub at: Vec<Id>,
    pub depth: usize,
}

#[derive(Clone, Copy)]
struct Info {
    local: bool,
    quant: Quant,
    mutable: bool,
}

struct C<'a> {
    globals: BTreeMap<String, Quant>,
    frames: Vec<BTreeMap<String, Info>>,
    caps: &'a [Cap],
    used: BTreeSet<String>,
    out: Vec<Violation>,
    /// ids of the enclosing statements (innermost last) and of the stanza
    enclosing: Vec<Id>,
    stanza: Id,
}

impl<'a> C<'a> {
    fn report(&mut self, rule: Rule, name: &str, token: Option<Id>, construct: Option<Id>) {
        let mut at = vec![];
        if let Some(t) = token {
            at.push(t);
        }
        if let Some(c) = construct {
            at.push(c);
        }
        if let Some(s) = self.enclosing.last() {
            at.push(*s);
        }
        at.push(self.stanza);
        self.out.push(Violation { rule, name: name.to_string(), at, depth: self.frames.len().saturating_sub(1) });
    }

    fn lookup(&self, name: &str) -> Option<Info> {
        for f in self.frames.iter().rev() {
            if let Some(i) = f.get(name) {
                return Some(*i);
            }
        }
        None
    }

    fn define(&mut self, name: &str, id: Id, info: Info) {
        if self.globals.contains_key(name) {
            self.report(Rule::HideGlobal, name, Some(id), None);
            return;
        }
        if self.frames.last().unwrap().contains_key(name) {
            self.report(Rule::Redefinition, name, Some(id), None);
            return;
        }
        self.frames.last_mut().unwrap().insert(name.to_string(), info);
    }

    /// (local, quantifier) of an expression; `construct` = innermost enclosing condition /
    /// comprehension (for the location set).
    fn expr(&mut self, e: &Expr, construct: Option<Id>) -> (bool, Quant) {
        match e {
            Expr::Null | Expr::True | Expr::False | Expr::Int(..) | Expr::Str(_) | Expr::RegexCap(_) | Expr::Raw(_) => (true, Quant::One),
            Expr::List(xs) | Expr::Set(xs) => {
                let mut local = true;
                for x in xs {
                    local &= self.expr(x, construct).0;
                }
                (local, Quant::Star)
            }
            Expr::ListComp { id, elem, var_id, var, src } | Expr::SetComp { id, elem, var_id, var, src } => {
                let (l, q) = self.expr(src, Some(*id));
                if !l {
                    self.report(Rule::NonLocal, "", None, Some(*id));
                } else if !q.is_list() {
                    self.report(Rule::NotList, "", None, Some(*id));
                }
                self.frames.push(BTreeMap::new());
                self.define(var, *var_id, Info { local: l, quant: q, mutable: false });
                let (el, _) = self.expr(elem, Some(*id));
                self.frames.pop();
                (el, Quant::Star)
            }
            Expr::Capture { id, name } => match self.caps.iter().find(|c| &c.name == name) {
                Some(c) => {
                    self.used.insert(name.clone());
                    (true, c.quant)
                }
                None => {
                    self.report(Rule::UndefinedCapture, name, Some(*id), construct);
                    (true, Quant::One)
                }
            },
            Expr::Var { id, name } => {
                if let Some(q) = self.globals.get(name) {
                    (true, *q)
                } else if let Some(i) = self.lookup(name) {
                    (i.local, i.quant)
                } else {
                    self.report(Rule::UndefinedVariable, name, Some(*id), construct);
                    (true, Quant::One)
                }
            }
            Expr::Scoped { scope, .. } => {
                self.expr(scope, construct);
                (false, Quant::One)
            }
            Expr::Call { args, .. } => {
                let mut local = true;
                for a in args {
                    local &= self.expr(a, construct).0;
                }
                (local, Quant::One)
            }
        }
    }

    fn block(&mut self, stmts: &[Stmt]) {
        self.frames.push(BTreeMap::new());
        for s in stmts {
            self.stmt(s);
        }
        self.frames.pop();
    }

    fn attrs(&mut self, attrs: &[Attr]) {
        for a in attrs {
            if let Some(v) = &a.value {
                self.expr(v, None);
            }
        }
    }

    fn stmt(&mut self, s: &Stmt) {
        self.enclosing.push(s.id());
        match s {
            Stmt::Let { var, value, .. } | Stmt::Var { var, value, .. } => {
                let (l, q) = self.expr(value, None);
                let mutable = matches!(s, Stmt::Var { .. });
                match var {
                    VarRef::Plain { id, name } => self.define(name, *id, Info { local: l && !mutable, quant: q, mutable }),
                    VarRef::Scoped { scope, .. } => {
                        self.expr(scope, None);
                    }
                }
            }
            Stmt::Set { var, value, .. } => {
                let (_, q) = self.expr(value, None);
                match var {
                    VarRef::Plain { id, name } => {
                        if self.globals.contains_key(name) {
                            self.report(Rule::SetGlobal, name, Some(*id), None);
                        } else {
                            let mut found = false;
                            let mut immutable = false;
                            for f in self.frames.iter_mut().rev() {
                                if let Some(i) = f.get_mut(name) {
                                    found = true;
                                    if i.mutable {
                                        i.local = false;
                                        i.quant = q;
                                    } else {
                                        immutable = true;
                                    }
                                    break;
                                }
                            }
                            if !found {
                                self.report(Rule::SetUndefined, name, Some(*id), None);
                            } else if immutable {
                                self.report(Rule::SetImmutable, name, Some(*id), None);
                            }
                        }
                    }
                    VarRef::Scoped { scope, .. } => {
                        self.expr(scope, None);
                    }
                }
            }
            Stmt::Node { var, .. } => match var {
                VarRef::Plain { id, name } => self.define(name, *id, Info { local: true, quant: Quant::One, mutable: false }),
                VarRef::Scoped { scope, .. } => {
                    self.expr(scope, None);
                }
            },
            Stmt::Edge { src, dst, .. } => {
                self.expr(src, None);
                self.expr(dst, None);
            }
            Stmt::AttrNode { node, attrs, .. } => {
                self.expr(node, None);
                self.attrs(attrs);
            }
            Stmt::AttrEdge { src, dst, attrs, .. } => {
                self.expr(src, None);
                self.expr(dst, None);
                self.attrs(attrs);
            }
            Stmt::Print { values, .. } => {
                for v in values {
                    self.expr(v, None);
                }
            }
            Stmt::Scan { value, arms, .. } => {
                let (l, _) = self.expr(value, None);
                if !l {
                    self.report(Rule::NonLocal, "", None, None);
                }
                for a in arms {
                    if regex::Regex::new(&a.regex).map(|r| r.is_match("")).unwrap_or(false) {
                        self.report(Rule::NullableRegex, &a.regex, None, None);
                    }
                    self.block(&a.body);
                }
            }
            Stmt::If { arms, .. } => {
                for arm in arms {
                    for c in &arm.conds {
                        let (l, q) = self.expr(c.expr(), Some(c.id()));
                        if !l {
                            self.report(Rule::NonLocal, "", None, Some(c.id()));
                        } else if !matches!(c, Cond::Bool(..)) && q != Quant::Opt {
                            self.report(Rule::NotOptional, "", None, Some(c.id()));
                        }
                    }
                    self.block(&arm.body);
                }
            }
            Stmt::For { var_id, var, value, body, .. } => {
                let (l, q) = self.expr(value, None);
                if !l {
                    self.report(Rule::NonLocal, "", None, None);
                } else if !q.is_list() {
                    self.report(Rule::NotList, "", None, None);
                }
                self.frames.push(BTreeMap::new());
                self.define(var, *var_id, Info { local: l, quant: q, mutable: false });
                for st in body {
                    self.stmt(st);
                }
                self.frames.pop();
            }
        }
        self.enclosing.pop();
    }
}

/// All violations of the static rules, in file order.  Shorthand bodies are not visited here (the
/// library does not check them: known finding D16; the generator never places faults there).
pub fn check(prog: &GProg) -> Vec<Violation> {
    let mut out = vec![];
    let mut globals: BTreeMap<String, Quant> = BTreeMap::new();
    for item in &prog.items {
        if let Item::Global { id, name, quant, .. } = item {
            if globals.contains_key(name) {
                out.push(Violation { rule: Rule::DuplicateGlobal, name: name.clone(), at: vec![*id], depth: 0 });
            } else {
                globals.insert(name.clone(), *quant);
            }
        }
    }
    for st in prog.stanzas() {
        let mut c = C { globals: globals.clone(), frames: vec![BTreeMap::new()], caps: &st.captures, used: BTreeSet::new(), out: vec![], enclosing: vec![], stanza: st.id };
        for s in &st.body {
            c.stmt(s);
        }
        let unused: Vec<String> = st.captures.iter().filter(|cap| !cap.name.starts_with('_') && !c.used.contains(&cap.name)).map(|cap| cap.name.clone()).collect();
        out.extend(c.out);
        if !unused.is_empty() {
            let mut sorted = unused.clone();
            sorted.sort();
            out.push(Violation { rule: Rule::UnusedCapture, name: sorted.join(" "), at: vec![st.id], depth: 0 });
        }
    }
    out
}
