//! A small strict JSON parser (RFC 8259) that keeps duplicate object keys and key order, so that a
//! document which lists an attribute twice is not silently "repaired" by the decoder.

#[derive(Debug, Clone, PartialEq)]
pub enum Raw {
    Null,
    Bool(bool),
    Num(String),
    Str(String),
    Arr(Vec<Raw>),
    Obj(Vec<(String, Raw)>),
}

impl Raw {
    pub fn get(&self, key: &str) -> Option<&Raw> {
        match self {
            Raw::Obj(kv) => kv.iter().find(|(k, _)| k == key).map(|(_, v)| v),
            _ => None,
        }
    }
    pub fn keys(&self) -> Vec<&str> {
        match self {
            Raw::Obj(kv) => kv.iter().map(|(k, _)| k.as_str()).collect(),
            _ => vec![],
        }
    }
    pub fn as_u64(&self) -> Option<u64> {
        match self {
            Raw::Num(s) => s.parse().ok(),
            _ => None,
        }
    }
    pub fn as_str(&self) -> Option<&str> {
        match self {
            Raw::Str(s) => Some(s),
            _ => None,
        }
    }
}

struct P<'a> {
    s: &'a [u8],
    i: usize,
}

pub fn parse(text: &str) -> Result<Raw, String> {
    let mut p = P { s: text.as_bytes(), i: 0 };
    p.ws();
    let v = p.value(0)?;
    p.ws();
    if p.i != p.s.len() {
        return Err(format!("trailing characters at byte {}", p.i));
    }
    Ok(v)
}

impl<'a> P<'a> {
    fn ws(&mut self) {
        while self.i < self.s.len() && matches!(self.s[self.i], b' ' | b'\t' | b'\n' | b'\r') {
            self.i += 1;
        }
    }
    fn peek(&self) -> Option<u8> {
        self.s.get(self.i).copied()
    }
    fn expect(&mut self, lit: &str) -> Result<(), String> {
        if self.s[self.i..].starts_with(lit.as_bytes()) {
            self.i += lit.len();
            Ok(())
        } else {
            Err(format!("expected `{}` at byte {}", lit, self.i))
        }
    }
    fn value(&mut self, depth: usize) -> Result<Raw, String> {
        if depth > 200 {
            return Err("nesting too deep".into());
        }
        match self.peek() {
            None => Err("unexpected end".into()),
            Some(b'n') => self.expect("null").map(|_| Raw::Null),
            Some(b't') => self.expect("true").map(|_| Raw::Bool(true)),
            Some(b'f') => self.expect("false").map(|_| Raw::Bool(false)),
            Some(b'"') => self.string().map(Raw::Str),
            Some(b'[') => {
                self.i += 1;
                let mut out = vec![];
                self.ws();
                if self.peek() == Some(b']') {
                    self.i += 1;
                    return Ok(Raw::Arr(out));
                }
                loop {
                    self.ws();
                    out.push(self.value(depth + 1)?);
                    self.ws();
                    match self.peek() {
                        Some(b',') => self.i += 1,
                        Some(b']') => {
                            self.i += 1;
                            return Ok(Raw::Arr(out));
                        }
                        _ => return Err(format!("expected `,` or `]` at byte {}", self.i)),
                    }
                }
            }
            Some(b'{') => {
                self.i += 1;
                let mut out = vec![];
                self.ws();
                if self.peek() == Some(b'}') {
                    self.i += 1;
                    return Ok(Raw::Obj(out));
                }
                loop {
                    self.ws();
                    if self.peek() != Some(b'"') {
                        return Err(format!("expected a key at byte {}", self.i));
                    }
                    let k = self.string()?;
                    self.ws();
                    self.expect(":")?;
                    self.ws();
                    let v = self.value(depth + 1)?;
                    out.push((k, v));
                    self.ws();
                    match self.peek() {
                        Some(b',') => self.i += 1,
                        Some(b'}') => {
                            self.i += 1;
                            return Ok(Raw::Obj(out));
                        }
                        _ => return Err(format!("expected `,` or `}}` at byte {}", self.i)),
                    }
                }
            }
            Some(c) if c == b'-' || c.is_ascii_digit() => {
                let start = self.i;
                if self.peek() == Some(b'-') {
                    self.i += 1;
                }
                match self.peek() {
                    Some(b'0') => self.i += 1,
                    Some(c) if c.is_ascii_digit() => {
                        while self.peek().map(|c| c.is_ascii_digit()).unwrap_or(false) {
                            self.i += 1;
                        }
                    }
                    _ => return Err(format!("bad number at byte {}", start)),
                }
                if self.peek() == Some(b'.') {
                    self.i += 1;
                    if !self.peek().map(|c| c.is_ascii_digit()).unwrap_or(false) {
                        return Err(format!("bad number at byte {}", start));
                    }
                    while self.peek().map(|c| c.is_ascii_digit()).unwrap_or(false) {
                        self.i += 1;
                    }
                }
                if matches!(self.peek(), Some(b'e') | Some(b'E')) {
                    self.i += 1;
                    if matches!(self.peek(), Some(b'+') | Some(b'-')) {
                        self.i += 1;
                    }
                    if !self.peek().map(|c| c.is_ascii_digit()).unwrap_or(false) {
                        return Err(format!("bad number at byte {}", start));
                    }
                    while self.peek().map(|c| c.is_ascii_digit()).unwrap_or(false) {
                        self.i += 1;
                    }
                }
                Ok(Raw::Num(String::from_utf8_lossy(&self.s[start..self.i]).to_string()))
            }
            Some(c) => Err(format!("unexpected byte {:?} at {}", c as char, self.i)),
        }
    }
    fn hex4(&mut self) -> Result<u32, String> {
        if self.i + 4 > self.s.len() {
            return Err("short \\u escape".into());
        }
        let h = std::str::from_utf8(&self.s[self.i..self.i + 4]).map_err(|_| "bad \\u escape".to_string())?;
        let v = u32::from_str_radix(h, 16).map_err(|_| "bad \\u escape".to_string())?;
        self.i += 4;
        Ok(v)
    }
    fn string(&mut self) -> Result<String, String> {
        self.i += 1; // opening quote
        let mut out: Vec<u8> = vec![];
        loop {
            let c = match self.peek() {
                None => return Err("unterminated string".into()),
                Some(c) => c,
            };
            self.i += 1;
            match c {
                b'"' => break,
                b'\\' => {
                    let e = self.peek().ok_or_else(|| "unterminated escape".to_string())?;
                    self.i += 1;
                    match e {
                        b'"' => out.push(b'"'),
                        b'\\' => out.push(b'\\'),
                        b'/' => out.push(b'/'),
                        b'b' => out.push(8),
                        b'f' => out.push(12),
                        b'n' => out.push(b'\n'),
                        b'r' => out.push(b'\r'),
                        b't' => out.push(b'\t'),
                        b'u' => {
                            let mut cp = self.hex4()?;
                            if (0xD800..0xDC00).contains(&cp) {
                                if self.s[self.i..].starts_with(b"\\u") {
                                    self.i += 2;
                                    let lo = self.hex4()?;
                                    if !(0xDC00..0xE000).contains(&lo) {
                                        return Err("bad surrogate pair".into());
                                    }
                                    cp = 0x10000 + ((cp - 0xD800) << 10) + (lo - 0xDC00);
                                } else {
                                    return Err("lone surrogate".into());
                                }
                            }
                            let ch = char::from_u32(cp).ok_or_else(|| "bad code point".to_string())?;
                            let mut buf = [0u8; 4];
                            out.extend_from_slice(ch.encode_utf8(&mut buf).as_bytes());
                        }
                        _ => return Err(format!("bad escape at byte {}", self.i)),
                    }
                }
                c if c < 0x20 => return Err(format!("raw control character in string at byte {}", self.i)),
                c => out.push(c),
            }
        }
        String::from_utf8(out).map_err(|_| "invalid UTF-8 in string".to_string())
    }
}
