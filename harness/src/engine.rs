//! Generation engine: choice tapes driven by proptest, parallel workers, shrinking, replay files,
//! known-findings handling and evidence output.
//!
//! Every property is a total function `case(&[u32]) -> CaseOutcome` of a *choice tape*.  proptest
//! generates and shrinks the tapes; all randomness comes from it (seeded from VERIF_SEED).

use proptest::collection::vec;
use proptest::prelude::*;
use proptest::test_runner::{Config, RngAlgorithm, RngSeed, TestCaseError, TestError, TestRunner};
use serde_json::{json, Value as J};
use std::cell::RefCell;
use std::collections::{BTreeMap, HashSet};
use std::hash::{Hash, Hasher};
use std::sync::atomic::{AtomicBool, AtomicU64, Ordering};
use std::sync::Mutex;
use std::time::Instant;

// ------------------------------------------------------------------------------------------------
// Tape

/// A choice tape.  Reads words left to right and yields 0 once exhausted, so every prefix of a
/// tape is a valid (simpler) input.  `choose` is monotone in the word, so shrinking a word towards
/// zero moves towards the first alternative.
pub struct Tape<'a> {
    words: &'a [u32],
    pos: usize,
}

impl<'a> Tape<'a> {
    pub fn new(words: &'a [u32]) -> Self {
        Tape { words, pos: 0 }
    }
    pub fn word(&mut self) -> u32 {
        let w = self.words.get(self.pos).copied().unwrap_or(0);
        self.pos += 1;
        w
    }
    /// A number in 0..n (n >= 1).
    pub fn choose(&mut self, n: usize) -> usize {
        if n <= 1 {
            // still consume a word so that tapes stay aligned when alternatives disappear
            self.word();
            return 0;
        }
        ((self.word() as u64 * n as u64) >> 32) as usize
    }
    /// A number in lo..=hi.
    pub fn range(&mut self, lo: usize, hi: usize) -> usize {
        lo + self.choose(hi - lo + 1)
    }
    /// True with probability num/den; false for small words.
    pub fn chance(&mut self, num: u32, den: u32) -> bool {
        let w = self.word() as u64;
        // true iff w falls in the top num/den fraction
        w * (den as u64) >= ((den - num) as u64) << 32
    }
    pub fn pick<'b, T>(&mut self, items: &'b [T]) -> &'b T {
        &items[self.choose(items.len())]
    }
    /// Index chosen with the given weights (first alternatives for small words).
    pub fn weighted(&mut self, weights: &[u32]) -> usize {
        let total: u64 = weights.iter().map(|w| *w as u64).sum();
        if total == 0 {
            self.word();
            return 0;
        }
        let x = (self.word() as u64 * total) >> 32;
        let mut acc = 0u64;
        for (i, w) in weights.iter().enumerate() {
            acc += *w as u64;
            if x < acc {
                return i;
            }
        }
        weights.len() - 1
    }
    pub fn exhausted(&self) -> bool {
        self.pos >= self.words.len()
    }
    pub fn consumed(&self) -> usize {
        self.pos
    }
}

/// Split a tape into an auxiliary tape (every third word: decisions, sources, layout) and a main
/// tape (the rest: the program generator), so that the small choices are not starved when a big
/// generator exhausts the tape.
pub fn split_tape(words: &[u32]) -> (Vec<u32>, Vec<u32>) {
    let mut aux = vec![];
    let mut main = vec![];
    for (i, w) in words.iter().enumerate() {
        if i % 3 == 0 {
            aux.push(*w);
        } else {
            main.push(*w);
        }
    }
    (aux, main)
}

// ------------------------------------------------------------------------------------------------
// Panic capture

thread_local! {
    static LAST_PANIC: RefCell<Option<String>> = RefCell::new(None);
}

/// Installs a silent panic hook that records message and location per thread.
pub fn install_panic_hook() {
    std::panic::set_hook(Box::new(|info| {
        let loc = info
            .location()
            .map(|l| format!("{}:{}", l.file(), l.line()))
            .unwrap_or_else(|| "?".to_string());
        let msg = if let Some(s) = info.payload().downcast_ref::<&str>() {
            s.to_string()
        } else if let Some(s) = info.payload().downcast_ref::<String>() {
            s.clone()
        } else {
            "<non-string panic>".to_string()
        };
        LAST_PANIC.with(|p| *p.borrow_mut() = Some(format!("{} @ {}", msg, loc)));
    }));
}

#[derive(Debug, Clone)]
pub struct LibPanic {
    pub message: String,
}

impl LibPanic {
    /// Location-independent-ish signature: source file of the panic plus the message with digits
    /// normalised.
    pub fn signature(&self) -> String {
        let (msg, loc) = match self.message.rsplit_once(" @ ") {
            Some((m, l)) => (m.to_string(), l.to_string()),
            None => (self.message.clone(), "?".to_string()),
        };
        let file = loc.rsplit_once(':').map(|x| x.0.to_string()).unwrap_or(loc);
        // crate-relative: `src/..` for the library under test, `<crate>-<version>/..` for dependencies
        let file = if let Some((_, rest)) = file.split_once("/registry/src/") {
            rest.split_once('/').map(|x| x.1.to_string()).unwrap_or_else(|| rest.to_string())
        } else {
            file.rsplit_once("/src/").map(|x| format!("src/{}", x.1)).unwrap_or(file)
        };
        let mut norm = String::new();
        let mut last_digit = false;
        for c in msg.chars().take(60) {
            if c == '`' || c == '\n' {
                break;
            }
            if c.is_ascii_digit() {
                if !last_digit {
                    norm.push('N');
                }
                last_digit = true;
            } else {
                norm.push(c);
                last_digit = false;
            }
        }
        format!("panic:{}:{}", file, norm)
    }
}

/// Runs code of the library under test; a panic inside becomes `Err(LibPanic)`.
pub fn call_lib<T>(f: impl FnOnce() -> T) -> Result<T, LibPanic> {
    LAST_PANIC.with(|p| *p.borrow_mut() = None);
    match std::panic::catch_unwind(std::panic::AssertUnwindSafe(f)) {
        Ok(v) => Ok(v),
        Err(_) => {
            let message = LAST_PANIC
                .with(|p| p.borrow_mut().take())
                .unwrap_or_else(|| "<unknown panic>".to_string());
            Err(LibPanic { message })
        }
    }
}

// ------------------------------------------------------------------------------------------------
// Process aborts (stack overflow, abort()): the tape each worker is executing is registered in a
// slot; a signal handler dumps the registered tapes into a replay file, prints the VIOLATION line
// and exits 1.  (An abort cannot be caught as a panic.)

const MAX_SLOTS: usize = 64;
static SLOT_PTR: [std::sync::atomic::AtomicPtr<u32>; MAX_SLOTS] = [const { std::sync::atomic::AtomicPtr::new(std::ptr::null_mut()) }; MAX_SLOTS];
static SLOT_LEN: [std::sync::atomic::AtomicUsize; MAX_SLOTS] = [const { std::sync::atomic::AtomicUsize::new(0) }; MAX_SLOTS];
static mut CRASH_PATH: [u8; 512] = [0; 512];
static mut CRASH_ID: [u8; 16] = [0; 16];

static SLOT_SINCE: [std::sync::atomic::AtomicU64; MAX_SLOTS] = [const { std::sync::atomic::AtomicU64::new(0) }; MAX_SLOTS];

fn now_ms() -> u64 {
    std::time::SystemTime::now().duration_since(std::time::UNIX_EPOCH).map(|d| d.as_millis() as u64).unwrap_or(0)
}

fn slot_set(slot: usize, tape: &[u32]) {
    if slot < MAX_SLOTS {
        SLOT_LEN[slot].store(tape.len(), Ordering::SeqCst);
        SLOT_SINCE[slot].store(now_ms(), Ordering::SeqCst);
        SLOT_PTR[slot].store(tape.as_ptr() as *mut u32, Ordering::SeqCst);
    }
}

fn slot_clear(slot: usize) {
    if slot < MAX_SLOTS {
        SLOT_PTR[slot].store(std::ptr::null_mut(), Ordering::SeqCst);
    }
}

trait ThreadIdCompat {
    fn as_u64_compat(&self) -> u64;
}
impl ThreadIdCompat for std::thread::ThreadId {
    fn as_u64_compat(&self) -> u64 {
        // ThreadId(N) - stable enough to spread fixed-case threads over slots
        format!("{:?}", self).chars().filter(|c| c.is_ascii_digit()).collect::<String>().parse().unwrap_or(0)
    }
}

/// A case that does not come back (a loop in the library that neither returns nor polls) cannot
/// be decided without a clock: after `VERIF_HANG_SECS` (default 600) on one tape the watchdog
/// writes the tapes of the stuck workers to `<ID>-hang-<pid>.json`, says so and ends the process
/// with status 2 (inconclusive) - never a violation.
pub fn start_watchdog(id: &str) {
    let id = id.to_string();
    let limit_ms: u64 = std::env::var("VERIF_HANG_SECS").ok().and_then(|s| s.parse::<u64>().ok()).unwrap_or(600) * 1000;
    std::thread::spawn(move || loop {
        std::thread::sleep(std::time::Duration::from_secs(2));
        let now = now_ms();
        let mut stuck: Vec<Vec<u32>> = vec![];
        for slot in 0..MAX_SLOTS {
            let p = SLOT_PTR[slot].load(Ordering::SeqCst);
            let since = SLOT_SINCE[slot].load(Ordering::SeqCst);
            if !p.is_null() && since > 0 && now.saturating_sub(since) > limit_ms {
                let len = SLOT_LEN[slot].load(Ordering::SeqCst).min(1 << 20);
                // the worker is still inside the case, so its tape is alive
                let tape = unsafe { std::slice::from_raw_parts(p as *const u32, len) }.to_vec();
                stuck.push(tape);
            }
        }
        if !stuck.is_empty() {
            let dir = out_root().join("evidence").join("replays");
            let _ = std::fs::create_dir_all(&dir);
            let path = dir.join(format!("{}-hang-{}.json", id, std::process::id()));
            let doc = json!({"property": id, "signature": format!("{}:no-return", id), "message": format!("a case did not return within {} s", limit_ms / 1000), "candidates": stuck});
            let _ = std::fs::write(&path, serde_json::to_string(&doc).unwrap_or_default());
            println!("HARNESS-ERROR: {} inconclusive - a case did not return within {} s (no poll, no result); the tapes of the stuck workers are in {}", id, limit_ms / 1000, path.display());
            use std::io::Write;
            let _ = std::io::stdout().flush();
            unsafe { libc::_exit(2) };
        }
    });
}

unsafe fn raw_write(fd: i32, bytes: &[u8]) {
    let mut off = 0;
    while off < bytes.len() {
        let n = libc::write(fd, bytes[off..].as_ptr() as *const libc::c_void, bytes.len() - off);
        if n <= 0 {
            return;
        }
        off += n as usize;
    }
}

unsafe fn raw_write_num(fd: i32, mut n: u64) {
    let mut buf = [0u8; 24];
    let mut i = buf.len();
    if n == 0 {
        i -= 1;
        buf[i] = b'0';
    }
    while n > 0 {
        i -= 1;
        buf[i] = b'0' + (n % 10) as u8;
        n /= 10;
    }
    raw_write(fd, &buf[i..]);
}

extern "C" fn on_crash(sig: libc::c_int) {
    unsafe {
        let path = std::ptr::addr_of!(CRASH_PATH) as *const libc::c_char;
        let fd = libc::open(path, libc::O_WRONLY | libc::O_CREAT | libc::O_TRUNC, 0o644);
        let id = &*std::ptr::addr_of!(CRASH_ID);
        let id_len = id.iter().position(|b| *b == 0).unwrap_or(0);
        if fd >= 0 {
            raw_write(fd, b"{\"property\": \"");
            raw_write(fd, &id[..id_len]);
            raw_write(fd, b"\", \"signature\": \"");
            raw_write(fd, &id[..id_len]);
            raw_write(fd, b":process-abort:signal-");
            raw_write_num(fd, sig as u64);
            raw_write(fd, b"\", \"message\": \"the process was killed by a signal (stack overflow or abort) while executing one of the candidate tapes\", \"candidates\": [");
            let mut first = true;
            for s in 0..MAX_SLOTS {
                let p = SLOT_PTR[s].load(Ordering::SeqCst);
                if p.is_null() {
                    continue;
                }
                let len = SLOT_LEN[s].load(Ordering::SeqCst);
                if !first {
                    raw_write(fd, b", ");
                }
                first = false;
                raw_write(fd, b"[");
                for k in 0..len {
                    if k > 0 {
                        raw_write(fd, b",");
                    }
                    raw_write_num(fd, *p.add(k) as u64);
                }
                raw_write(fd, b"]");
            }
            raw_write(fd, b"]}\n");
            libc::close(fd);
        }
        raw_write(1, b"VIOLATION property=");
        raw_write(1, &id[..id_len]);
        raw_write(1, b" replay=");
        let cp: &[u8; 512] = &*std::ptr::addr_of!(CRASH_PATH);
        let plen = cp.iter().position(|b| *b == 0).unwrap_or(0);
        raw_write(1, &cp[..plen]);
        raw_write(1, b"\n");
        libc::_exit(1);
    }
}

/// Route fatal signals of this process to a crash replay file for property `id`.
pub fn install_crash_handler(id: &str) {
    let dir = out_root().join("evidence").join("replays");
    let _ = std::fs::create_dir_all(&dir);
    let path = dir.join(format!("{}-abort-{}.json", id, std::process::id()));
    let p = path.to_string_lossy().to_string();
    unsafe {
        let dst = &mut *std::ptr::addr_of_mut!(CRASH_PATH);
        let n = p.len().min(dst.len() - 1);
        dst[..n].copy_from_slice(&p.as_bytes()[..n]);
        dst[n] = 0;
        let idd = &mut *std::ptr::addr_of_mut!(CRASH_ID);
        let m = id.len().min(idd.len() - 1);
        idd[..m].copy_from_slice(&id.as_bytes()[..m]);
        idd[m] = 0;
        let mut sa: libc::sigaction = std::mem::zeroed();
        sa.sa_sigaction = on_crash as usize;
        sa.sa_flags = libc::SA_ONSTACK;
        libc::sigemptyset(&mut sa.sa_mask);
        for sig in [libc::SIGSEGV, libc::SIGBUS, libc::SIGABRT, libc::SIGILL] {
            libc::sigaction(sig, &sa, std::ptr::null_mut());
        }
    }
}

// ------------------------------------------------------------------------------------------------
// stderr handling: the DSL `print` statement writes to stderr; silence it, keep a copy for us.

static mut SAVED_STDERR: i32 = -1;

pub fn silence_stderr() {
    unsafe {
        if SAVED_STDERR >= 0 {
            return;
        }
        SAVED_STDERR = libc::dup(2);
        let devnull = libc::open(b"/dev/null\0".as_ptr() as *const libc::c_char, libc::O_WRONLY);
        if devnull >= 0 {
            libc::dup2(devnull, 2);
            libc::close(devnull);
        }
    }
}

/// Write a progress / diagnostic line to the real stderr.
pub fn note(msg: &str) {
    unsafe {
        let fd = if SAVED_STDERR >= 0 { SAVED_STDERR } else { 2 };
        let line = format!("{}\n", msg);
        libc::write(fd, line.as_ptr() as *const libc::c_void, line.len());
    }
}

// ------------------------------------------------------------------------------------------------
// Case outcomes

#[derive(Debug, Clone)]
pub struct Failure {
    /// Identifies the *kind* of failure (used for known-finding matching and to keep shrinking on
    /// the same defect).
    pub signature: String,
    pub message: String,
    /// Rendered inputs and expected/actual values.
    pub detail: J,
}

impl Failure {
    pub fn new(signature: impl Into<String>, message: impl Into<String>, detail: J) -> Self {
        Failure {
            signature: signature.into(),
            message: message.into(),
            detail,
        }
    }
}

#[derive(Debug, Clone, Default)]
pub struct CaseReport {
    /// Fingerprint of the rendered case (for distinct counting).
    pub fingerprint: u64,
    /// Non-trivial by the property's stated rule.
    pub nontrivial: bool,
    pub labels: Vec<String>,
    /// Counters such as "excluded:<class>" or "inconclusive:<why>".
    pub counters: Vec<(String, u64)>,
    /// Rendered case, kept for a few cases as evidence samples.
    pub sample: Option<J>,
    /// Number of library executions this case performed (defaults to 1).
    pub evaluations: u64,
}

pub enum CaseOutcome {
    Pass(CaseReport),
    Discard(&'static str),
    Fail(Failure),
}

pub fn fingerprint<T: Hash>(t: &T) -> u64 {
    let mut h = std::collections::hash_map::DefaultHasher::new();
    t.hash(&mut h);
    h.finish()
}

// ------------------------------------------------------------------------------------------------
// Known findings

#[derive(Debug, Clone)]
pub struct KnownFinding {
    pub status: String, // "known" | "fixed"
    pub property: String,
    pub signature: String,
    pub what: String,
    pub commit: Option<String>,
}

pub fn verif_root() -> std::path::PathBuf {
    if let Ok(p) = std::env::var("VERIF_ROOT") {
        return p.into();
    }
    "/verif".into()
}

pub fn out_root() -> std::path::PathBuf {
    if let Ok(p) = std::env::var("VERIF_OUT") {
        return p.into();
    }
    verif_root()
}

pub fn load_known_findings(property: &str) -> Vec<KnownFinding> {
    let path = verif_root().join("known_findings.json");
    let text = match std::fs::read_to_string(&path) {
        Ok(t) => t,
        Err(_) => return vec![],
    };
    let v: J = match serde_json::from_str(&text) {
        Ok(v) => v,
        Err(e) => {
            note(&format!("known_findings.json does not parse: {}", e));
            std::process::exit(2);
        }
    };
    let mut out = vec![];
    for e in v["findings"].as_array().cloned().unwrap_or_default() {
        if e["property"].as_str() != Some(property) {
            continue;
        }
        out.push(KnownFinding {
            status: e["status"].as_str().unwrap_or("").to_string(),
            property: property.to_string(),
            signature: e["signature"].as_str().unwrap_or("").to_string(),
            what: e["what"].as_str().unwrap_or("").to_string(),
            commit: e["commit"].as_str().map(|s| s.to_string()),
        });
    }
    out
}

// ------------------------------------------------------------------------------------------------
// Run specification and result

#[derive(Clone)]
pub struct Spec {
    pub id: &'static str,
    pub tier: String,
    pub seed: u64,
    pub cases: u64,
    pub tape_len: usize,
    pub workers: usize,
    pub level: &'static str,
    pub rule: String,
    pub assumptions: Vec<String>,
    pub exhaustive: bool,
}

impl Spec {
    pub fn new(id: &'static str, tier: &str, quick_cases: u64, thorough_cases: u64, tape_len: usize) -> Spec {
        let seed = std::env::var("VERIF_SEED")
            .ok()
            .and_then(|s| s.trim().parse::<u64>().ok())
            .unwrap_or(1);
        let workers = std::env::var("VERIF_WORKERS")
            .ok()
            .and_then(|s| s.parse::<usize>().ok())
            .unwrap_or_else(|| std::thread::available_parallelism().map(|n| n.get()).unwrap_or(8).min(16));
        let mut cases = if tier == "thorough" { thorough_cases } else { quick_cases };
        if let Ok(s) = std::env::var("VERIF_CASES") {
            if let Ok(n) = s.parse::<u64>() {
                cases = n;
            }
        }
        Spec {
            id,
            tier: tier.to_string(),
            seed,
            cases,
            tape_len,
            workers,
            level: "exploration",
            rule: String::new(),
            assumptions: vec![],
            exhaustive: false,
        }
    }
}

#[derive(Default)]
pub struct Accum {
    pub evaluations: u64,
    pub cases: u64,
    pub discards: BTreeMap<String, u64>,
    pub labels: BTreeMap<String, u64>,
    pub counters: BTreeMap<String, u64>,
    pub nontrivial: HashSet<u64>,
    pub distinct: HashSet<u64>,
    pub samples: Vec<J>,
    pub known_hits: BTreeMap<String, u64>,
}

impl Accum {
    fn merge(&mut self, o: Accum) {
        self.evaluations += o.evaluations;
        self.cases += o.cases;
        for (k, v) in o.discards {
            *self.discards.entry(k).or_default() += v;
        }
        for (k, v) in o.labels {
            *self.labels.entry(k).or_default() += v;
        }
        for (k, v) in o.counters {
            *self.counters.entry(k).or_default() += v;
        }
        self.nontrivial.extend(o.nontrivial);
        self.distinct.extend(o.distinct);
        for s in o.samples {
            if self.samples.len() < 6 {
                self.samples.push(s);
            }
        }
        for (k, v) in o.known_hits {
            *self.known_hits.entry(k).or_default() += v;
        }
    }
    pub fn absorb(&mut self, r: CaseReport) {
        self.cases += 1;
        self.evaluations += r.evaluations.max(1);
        self.distinct.insert(r.fingerprint);
        if r.nontrivial {
            let fresh = self.nontrivial.insert(r.fingerprint);
            if fresh && self.samples.len() < 3 {
                if let Some(s) = r.sample {
                    self.samples.push(s);
                }
            }
        }
        for l in r.labels {
            *self.labels.entry(l).or_default() += 1;
        }
        for (k, v) in r.counters {
            *self.counters.entry(k).or_default() += v;
        }
    }
}

pub struct Violation {
    pub failure: Failure,
    pub tape: Vec<u32>,
    pub replay_path: String,
}

pub struct RunResult {
    pub accum: Accum,
    pub violations: Vec<Violation>,
    pub harness_errors: Vec<String>,
}

static HARNESS_ERROR: Mutex<Vec<String>> = Mutex::new(Vec::new());

pub fn harness_error(msg: String) {
    HARNESS_ERROR.lock().unwrap().push(msg);
}

fn seed_bytes(seed: u64, id: &str, worker: usize) -> [u8; 32] {
    let mut out = [0u8; 32];
    let mut x = fingerprint(&(seed, id, worker as u64, 0x5eedu64));
    for chunk in out.chunks_mut(8) {
        // splitmix64
        x = x.wrapping_add(0x9E3779B97F4A7C15);
        let mut z = x;
        z = (z ^ (z >> 30)).wrapping_mul(0xBF58476D1CE4E5B9);
        z = (z ^ (z >> 27)).wrapping_mul(0x94D049BB133111EB);
        z ^= z >> 31;
        chunk.copy_from_slice(&z.to_le_bytes());
    }
    out
}

/// Runs `case` over proptest-generated tapes on `spec.workers` threads.
pub fn run_tapes<F>(spec: &Spec, case: F) -> RunResult
where
    F: Fn(&[u32]) -> CaseOutcome + Sync,
{
    let known = load_known_findings(spec.id);
    let stop = AtomicBool::new(false);
    let total = Mutex::new(Accum::default());
    let violations: Mutex<Vec<Violation>> = Mutex::new(vec![]);
    let per_worker = (spec.cases + spec.workers as u64 - 1) / spec.workers as u64;
    let done_cases = AtomicU64::new(0);

    std::thread::scope(|scope| {
        for w in 0..spec.workers {
            let case = &case;
            let known = &known;
            let stop = &stop;
            let total = &total;
            let violations = &violations;
            let done_cases = &done_cases;
            let spec = spec.clone();
            std::thread::Builder::new()
                .stack_size(256 << 20)
                .spawn_scoped(scope, move || {
                    let config = Config {
                        cases: per_worker as u32,
                        failure_persistence: None,
                        max_shrink_iters: 3000,
                        max_global_rejects: u32::MAX,
                        max_local_rejects: u32::MAX,
                        rng_algorithm: RngAlgorithm::ChaCha,
                        rng_seed: RngSeed::Fixed(0),
                        verbose: 0,
                        max_shrink_time: 15_000,
                        max_flat_map_regens: 1_000_000,
                        max_default_size_range: 100,
                        ..Config::default()
                    };
                    let rng = proptest::test_runner::TestRng::from_seed(
                        RngAlgorithm::ChaCha,
                        &seed_bytes(spec.seed, spec.id, w),
                    );
                    let mut runner = TestRunner::new_with_rng(config, rng);
                    let acc = RefCell::new(Accum::default());
                    // after the first failure of this worker: only that signature counts
                    let failing_sig: RefCell<Option<String>> = RefCell::new(None);
                    let strategy = vec(any::<u32>(), 0..spec.tape_len.max(1));
                    let result = runner.run(&strategy, |tape| {
                        let shrinking = failing_sig.borrow().is_some();
                        if !shrinking && stop.load(Ordering::Relaxed) {
                            return Ok(());
                        }
                        slot_set(w, &tape);
                        let caught = std::panic::catch_unwind(std::panic::AssertUnwindSafe(|| case(&tape)));
                        slot_clear(w);
                        let outcome = match caught {
                            Ok(o) => o,
                            Err(_) => {
                                let message = LAST_PANIC
                                    .with(|p| p.borrow_mut().take())
                                    .unwrap_or_else(|| "<unknown panic>".to_string());
                                if !shrinking {
                                    harness_error(format!(
                                        "harness panic in {}: {} (tape {:?})",
                                        spec.id, message, tape
                                    ));
                                    stop.store(true, Ordering::Relaxed);
                                }
                                return Ok(());
                            }
                        };
                        match outcome {
                            CaseOutcome::Pass(report) => {
                                if !shrinking {
                                    acc.borrow_mut().absorb(report);
                                    done_cases.fetch_add(1, Ordering::Relaxed);
                                }
                                Ok(())
                            }
                            CaseOutcome::Discard(why) => {
                                if !shrinking {
                                    *acc.borrow_mut().discards.entry(why.to_string()).or_default() += 1;
                                }
                                Ok(())
                            }
                            CaseOutcome::Fail(f) => {
                                if let Some(sig) = failing_sig.borrow().as_ref() {
                                    // shrinking: stay on the same defect
                                    return if &f.signature == sig {
                                        Err(TestCaseError::fail(f.signature))
                                    } else {
                                        Ok(())
                                    };
                                }
                                if let Some(k) = known
                                    .iter()
                                    .find(|k| k.status == "known" && f.signature.starts_with(&k.signature))
                                {
                                    let mut a = acc.borrow_mut();
                                    *a.known_hits.entry(k.signature.clone()).or_default() += 1;
                                    a.cases += 1;
                                    a.evaluations += 1;
                                    return Ok(());
                                }
                                {
                                    let mut a = acc.borrow_mut();
                                    a.cases += 1;
                                    a.evaluations += 1;
                                }
                                *failing_sig.borrow_mut() = Some(f.signature.clone());
                                stop.store(true, Ordering::Relaxed);
                                Err(TestCaseError::fail(f.signature))
                            }
                        }
                    });
                    if let Err(TestError::Fail(_, tape)) = result {
                        // re-run the minimal tape to obtain its details
                        let sig = failing_sig.borrow().clone().unwrap_or_default();
                        let failure = match std::panic::catch_unwind(std::panic::AssertUnwindSafe(|| case(&tape))) {
                            Ok(CaseOutcome::Fail(f)) => f,
                            _ => Failure::new(sig, "failure did not reproduce on the shrunk tape", json!({})),
                        };
                        let replay_path = write_replay(spec.id, &failure, &tape);
                        violations.lock().unwrap().push(Violation {
                            failure,
                            tape,
                            replay_path,
                        });
                    } else if let Err(TestError::Abort(reason)) = result {
                        harness_error(format!("proptest aborted in {}: {}", spec.id, reason));
                    }
                    total.lock().unwrap().merge(acc.into_inner());
                })
                .unwrap();
        }
    });

    let harness_errors = HARNESS_ERROR.lock().unwrap().clone();
    RunResult {
        accum: total.into_inner().unwrap(),
        violations: violations.into_inner().unwrap(),
        harness_errors,
    }
}

/// Runs a fixed list of pinned cases (regression replays etc.) through `case`, without proptest.
pub fn run_fixed<T, F, G>(spec: &Spec, items: &[T], case: F, tape_of: G) -> RunResult
where
    T: Sync + std::fmt::Debug,
    F: Fn(&T) -> CaseOutcome + Sync,
    G: Fn(&T) -> Vec<u32> + Sync,
{
    let known = load_known_findings(spec.id);
    let mut acc = Accum::default();
    let mut violations: Vec<Violation> = vec![];
    // fixed cases are visible to the crash handler and the hang watchdog as well (one slot per
    // thread, taken from the top of the table)
    let slot = MAX_SLOTS - 1 - (std::thread::current().id().as_u64_compat() % 32) as usize;
    for item in items {
        let tape_for_slot = tape_of(item);
        slot_set(slot, &tape_for_slot);
        let caught = std::panic::catch_unwind(std::panic::AssertUnwindSafe(|| case(item)));
        slot_clear(slot);
        let outcome = match caught {
            Ok(o) => o,
            Err(_) => {
                let message = LAST_PANIC
                    .with(|p| p.borrow_mut().take())
                    .unwrap_or_else(|| "<unknown panic>".to_string());
                harness_error(format!("harness panic in {} (fixed case {:?}): {}", spec.id, item, message));
                continue;
            }
        };
        match outcome {
            CaseOutcome::Pass(r) => acc.absorb(r),
            CaseOutcome::Discard(why) => *acc.discards.entry(why.to_string()).or_default() += 1,
            CaseOutcome::Fail(f) => {
                acc.cases += 1;
                acc.evaluations += 1;
                if let Some(k) = known
                    .iter()
                    .find(|k| k.status == "known" && f.signature.starts_with(&k.signature))
                {
                    *acc.known_hits.entry(k.signature.clone()).or_default() += 1;
                    continue;
                }
                // one replay per signature is enough
                if violations.iter().any(|v| v.failure.signature == f.signature) {
                    *acc.counters.entry(format!("more-violations:{}", f.signature)).or_default() += 1;
                    continue;
                }
                let tape = tape_of(item);
                let replay_path = write_replay(spec.id, &f, &tape);
                violations.push(Violation {
                    failure: f,
                    tape,
                    replay_path,
                });
            }
        }
    }
    RunResult {
        accum: acc,
        violations,
        harness_errors: HARNESS_ERROR.lock().unwrap().clone(),
    }
}

/// `run_fixed` over chunks of the list on `spec.workers` threads.
pub fn run_fixed_parallel<T, F, G>(spec: &Spec, items: &[T], case: F, tape_of: G) -> RunResult
where
    T: Sync + std::fmt::Debug,
    F: Fn(&T) -> CaseOutcome + Sync,
    G: Fn(&T) -> Vec<u32> + Sync,
{
    if items.is_empty() {
        return RunResult { accum: Accum::default(), violations: vec![], harness_errors: vec![] };
    }
    let chunk = (items.len() + spec.workers - 1) / spec.workers;
    let results: Mutex<Vec<(usize, RunResult)>> = Mutex::new(vec![]);
    std::thread::scope(|scope| {
        for (i, part) in items.chunks(chunk.max(1)).enumerate() {
            let case = &case;
            let tape_of = &tape_of;
            let results = &results;
            std::thread::Builder::new()
                .stack_size(256 << 20)
                .spawn_scoped(scope, move || {
                    let r = run_fixed(spec, part, case, tape_of);
                    results.lock().unwrap().push((i, r));
                })
                .unwrap();
        }
    });
    let mut parts = results.into_inner().unwrap();
    parts.sort_by_key(|p| p.0);
    let mut it = parts.into_iter().map(|p| p.1);
    let mut total = it.next().unwrap();
    for r in it {
        total = merge_results(total, r);
    }
    total
}

pub fn merge_results(mut a: RunResult, b: RunResult) -> RunResult {
    a.accum.merge(b.accum);
    a.violations.extend(b.violations);
    a.harness_errors = HARNESS_ERROR.lock().unwrap().clone();
    a
}

fn write_replay(id: &str, failure: &Failure, tape: &[u32]) -> String {
    let dir = out_root().join("evidence").join("replays");
    let _ = std::fs::create_dir_all(&dir);
    let fp = fingerprint(&(failure.signature.as_str(), tape));
    let path = dir.join(format!("{}-{:016x}.json", id, fp));
    let doc = json!({
        "property": id,
        "signature": failure.signature,
        "message": failure.message,
        "tape": tape,
        "detail": failure.detail,
    });
    let _ = std::fs::write(&path, serde_json::to_string_pretty(&doc).unwrap());
    path.to_string_lossy().to_string()
}

// ------------------------------------------------------------------------------------------------
// Finishing: evidence file, KNOWN-FINDING / VIOLATION lines, exit status

pub fn finish(spec: &Spec, result: RunResult, started: Instant) -> i32 {
    let known = load_known_findings(spec.id);
    let acc = &result.accum;
    let mut samples: Vec<J> = acc.samples.iter().take(4).cloned().collect();
    if samples.is_empty() {
        samples.push(json!("no non-trivial case was rendered in this run"));
    }
    let labels: BTreeMap<String, u64> = acc.labels.clone();
    // very long counter tables (e.g. one entry per call class) are cut to the 300 largest
    let mut counters: BTreeMap<String, u64> = acc.counters.clone();
    let counter_entries = counters.len();
    if counters.len() > 300 {
        let mut v: Vec<(String, u64)> = counters.into_iter().collect();
        v.sort_by(|a, b| b.1.cmp(&a.1).then(a.0.cmp(&b.0)));
        let rest: u64 = v[300..].iter().map(|x| x.1).sum();
        counters = v.into_iter().take(300).collect();
        counters.insert(format!("(other {} entries)", counter_entries - 300), rest);
    }
    let mut coverage = json!({
        "evaluations": acc.evaluations,
        "cases": acc.cases,
        "distinct_cases": acc.distinct.len(),
        "distinct_nontrivial": acc.nontrivial.len(),
        "rule": spec.rule,
        "samples": samples,
        "labels": labels,
        "counters": counters,
        "counter_entries": counter_entries,
        "discards": acc.discards,
        "known_finding_hits": acc.known_hits,
        "workers": spec.workers,
    });
    if spec.exhaustive {
        coverage["exhaustive"] = json!(true);
    }
    let evidence = json!({
        "property_id": spec.id,
        "tier": if spec.tier == "thorough" { "thorough" } else { "quick" },
        "seed": spec.seed,
        "level": spec.level,
        "coverage": coverage,
        "assumptions": spec.assumptions,
        "wall_s": started.elapsed().as_secs_f64(),
        "violations": result.violations.len(),
    });
    let dir = out_root().join("evidence");
    let _ = std::fs::create_dir_all(&dir);
    let path = dir.join(format!("{}.json", spec.id));
    if let Err(e) = std::fs::write(&path, serde_json::to_string_pretty(&evidence).unwrap()) {
        note(&format!("cannot write evidence {}: {}", path.display(), e));
        return 2;
    }

    for k in known.iter().filter(|k| k.status == "known") {
        let hits = acc.known_hits.get(&k.signature).copied().unwrap_or(0);
        if hits > 0 {
            println!("KNOWN-FINDING: property={} {} [signature {}; {} case(s) this run]", spec.id, k.what, k.signature, hits);
        }
    }
    println!(
        "{} {}: {} cases, {} evaluations, {} distinct non-trivial, {} violation(s), {:.1}s",
        spec.id,
        spec.tier,
        acc.cases,
        acc.evaluations,
        acc.nontrivial.len(),
        result.violations.len(),
        started.elapsed().as_secs_f64()
    );
    if !result.harness_errors.is_empty() {
        for e in &result.harness_errors {
            println!("HARNESS-ERROR: {}", e);
        }
        return 2;
    }
    if !result.violations.is_empty() {
        // one report per signature: the one with the shortest tape
        let mut by_sig: BTreeMap<String, &Violation> = BTreeMap::new();
        for v in &result.violations {
            let e = by_sig.entry(v.failure.signature.clone()).or_insert(v);
            if v.tape.len() < e.tape.len() {
                *e = v;
            }
        }
        for v in by_sig.values() {
            println!("  {}: {}", v.failure.signature, v.failure.message.lines().next().unwrap_or(""));
        }
        for v in by_sig.values() {
            println!("VIOLATION property={} replay={}", spec.id, v.replay_path);
        }
        return 1;
    }
    if acc.nontrivial.len() < 2 {
        println!("HARNESS-ERROR: fewer than 2 distinct non-trivial cases were generated");
        return 2;
    }
    0
}

/// Replays one file through `case`; prints the verdict and returns the exit code.
pub fn replay_file<F>(id: &str, path: &str, case: F) -> i32
where
    F: Fn(&[u32]) -> CaseOutcome,
{
    let text = match std::fs::read_to_string(path) {
        Ok(t) => t,
        Err(e) => {
            println!("cannot read {}: {}", path, e);
            return 2;
        }
    };
    let doc: J = match serde_json::from_str(&text) {
        Ok(d) => d,
        Err(e) => {
            println!("cannot parse {}: {}", path, e);
            return 2;
        }
    };
    if let Some(cands) = doc["candidates"].as_array() {
        // a crash file: run every candidate tape in a child process of its own
        let exe = std::env::current_exe().expect("current exe");
        for (i, c) in cands.iter().enumerate() {
            let tmp = out_root().join("evidence").join("replays").join(format!("{}-candidate-{}-{}.json", id, std::process::id(), i));
            let _ = std::fs::write(&tmp, serde_json::to_string(&json!({"property": id, "tape": c})).unwrap());
            let status = std::process::Command::new(&exe).args([id, "--replay", &tmp.to_string_lossy()]).env("RUST_BACKTRACE", "0").stdout(std::process::Stdio::null()).status();
            let _ = std::fs::remove_file(&tmp);
            // the child's own crash handler exits 1 after writing its crash file
            let died = match status {
                Ok(st) => st.code().map(|c| c != 0 && c != 2).unwrap_or(true),
                Err(_) => false,
            };
            if died {
                println!("replay {}: candidate {} still kills the process or violates the property", path, i);
                println!("VIOLATION property={} replay={}", id, path);
                return 1;
            }
        }
        println!("replay {}: no candidate tape kills the process any more", path);
        return 0;
    }
    let tape: Vec<u32> = doc["tape"]
        .as_array()
        .map(|a| a.iter().filter_map(|x| x.as_u64()).map(|x| x as u32).collect())
        .unwrap_or_default();
    slot_set(0, &tape);
    match case(&tape) {
        CaseOutcome::Pass(_) => {
            println!("replay {}: property holds on this input", path);
            0
        }
        CaseOutcome::Discard(why) => {
            println!("replay {}: input discarded ({})", path, why);
            0
        }
        CaseOutcome::Fail(f) => {
            println!("replay {}: {}\n{}", path, f.signature, f.message);
            println!("{}", serde_json::to_string_pretty(&f.detail).unwrap());
            println!("VIOLATION property={} replay={}", id, path);
            1
        }
    }
}
