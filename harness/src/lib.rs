//! tsgv library: generators, models and property checks (used by the `tsgv` binary and the fuzz targets).

pub mod cval;
pub mod dsl;
pub mod engine;
pub mod fuzzrun;
pub mod gen;
pub mod interp;
pub mod lib_api;
pub mod pool;
pub mod props;
pub mod pysrc;
pub mod rawjson;
pub mod refcheck;
pub mod stdlib;
pub mod tree;
