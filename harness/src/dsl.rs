//! S3 (part 1) — the harness's own AST for the graph DSL and a printer that renders it to text,
//! recording the row / character column of every located construct.  The layout is canonical or
//! randomised from a tape.

use crate::engine::Tape;
use std::collections::BTreeMap;

pub type Id = usize;

#[derive(Clone, Copy, Debug, PartialEq, Eq, PartialOrd, Ord, Hash)]
pub enum Quant {
    One,
    Opt,
    Star,
    Plus,
}

impl Quant {
    pub fn suffix(self) -> &'static str {
        match self {
            Quant::One => "",
            Quant::Opt => "?",
            Quant::Star => "*",
            Quant::Plus => "+",
        }
    }
    pub fn is_list(self) -> bool {
        matches!(self, Quant::Star | Quant::Plus)
    }
}

#[derive(Clone, Debug, PartialEq)]
pub enum Expr {
    Null,
    True,
    False,
    /// value, number of leading zeros to print
    Int(u32, u8),
    Str(String),
    List(Vec<Expr>),
    Set(Vec<Expr>),
    ListComp { id: Id, elem: Box<Expr>, var_id: Id, var: String, src: Box<Expr> },
    SetComp { id: Id, elem: Box<Expr>, var_id: Id, var: String, src: Box<Expr> },
    Capture { id: Id, name: String },
    Var { id: Id, name: String },
    Scoped { id: Id, scope: Box<Expr>, name: String },
    Call { func: String, args: Vec<Expr> },
    RegexCap(usize),
    /// raw text emitted verbatim (fault injection in C05 only)
    Raw(String),
}

#[derive(Clone, Debug, PartialEq)]
pub enum VarRef {
    Plain { id: Id, name: String },
    Scoped { id: Id, scope: Expr, name: String },
}

impl VarRef {
    pub fn id(&self) -> Id {
        match self {
            VarRef::Plain { id, .. } | VarRef::Scoped { id, .. } => *id,
        }
    }
    pub fn to_expr(&self) -> Expr {
        match self {
            VarRef::Plain { id, name } => Expr::Var { id: *id, name: name.clone() },
            VarRef::Scoped { id, scope, name } => Expr::Scoped { id: *id, scope: Box::new(scope.clone()), name: name.clone() },
        }
    }
}

#[derive(Clone, Debug, PartialEq)]
pub struct Attr {
    pub name: String,
    /// None: bare attribute name (value #true)
    pub value: Option<Expr>,
}

#[derive(Clone, Debug, PartialEq)]
pub enum Cond {
    Some(Id, Expr),
    None(Id, Expr),
    Bool(Id, Expr),
}

impl Cond {
    pub fn id(&self) -> Id {
        match self {
            Cond::Some(i, _) | Cond::None(i, _) | Cond::Bool(i, _) => *i,
        }
    }
    pub fn expr(&self) -> &Expr {
        match self {
            Cond::Some(_, e) | Cond::None(_, e) | Cond::Bool(_, e) => e,
        }
    }
}

#[derive(Clone, Debug, PartialEq)]
pub struct IfArm {
    pub id: Id,
    /// empty: `else`
    pub conds: Vec<Cond>,
    pub body: Vec<Stmt>,
}

#[derive(Clone, Debug, PartialEq)]
pub struct ScanArm {
    pub regex: String,
    pub body: Vec<Stmt>,
}

#[derive(Clone, Debug, PartialEq)]
pub enum Stmt {
    Let { id: Id, var: VarRef, value: Expr },
    Var { id: Id, var: VarRef, value: Expr },
    Set { id: Id, var: VarRef, value: Expr },
    Node { id: Id, var: VarRef },
    Edge { id: Id, src: Expr, dst: Expr },
    AttrNode { id: Id, node: Expr, attrs: Vec<Attr> },
    AttrEdge { id: Id, src: Expr, dst: Expr, attrs: Vec<Attr> },
    Print { id: Id, values: Vec<Expr> },
    Scan { id: Id, value: Expr, arms: Vec<ScanArm> },
    If { id: Id, arms: Vec<IfArm> },
    For { id: Id, var_id: Id, var: String, value: Expr, body: Vec<Stmt> },
}

impl Stmt {
    pub fn id(&self) -> Id {
        match self {
            Stmt::Let { id, .. }
            | Stmt::Var { id, .. }
            | Stmt::Set { id, .. }
            | Stmt::Node { id, .. }
            | Stmt::Edge { id, .. }
            | Stmt::AttrNode { id, .. }
            | Stmt::AttrEdge { id, .. }
            | Stmt::Print { id, .. }
            | Stmt::Scan { id, .. }
            | Stmt::If { id, .. }
            | Stmt::For { id, .. } => *id,
        }
    }
    pub fn kind(&self) -> &'static str {
        match self {
            Stmt::Let { .. } => "let",
            Stmt::Var { .. } => "var",
            Stmt::Set { .. } => "set",
            Stmt::Node { .. } => "node",
            Stmt::Edge { .. } => "edge",
            Stmt::AttrNode { .. } => "attr-node",
            Stmt::AttrEdge { .. } => "attr-edge",
            Stmt::Print { .. } => "print",
            Stmt::Scan { .. } => "scan",
            Stmt::If { .. } => "if",
            Stmt::For { .. } => "for",
        }
    }
}

#[derive(Clone, Debug, PartialEq)]
pub struct Cap {
    pub name: String,
    pub quant: Quant,
}

#[derive(Clone, Debug, PartialEq)]
pub struct Stanza {
    pub id: Id,
    /// query text as written (may span lines; never contains `{` outside strings/comments)
    pub query: String,
    /// captures of the query (as tree-sitter reports them)
    pub captures: Vec<Cap>,
    pub body: Vec<Stmt>,
    /// index into the query pool (usize::MAX if hand-written)
    pub pool: usize,
}

#[derive(Clone, Debug, PartialEq)]
pub enum Item {
    Global { id: Id, name: String, quant: Quant, default: Option<String> },
    Inherit { name: String },
    Shorthand { id: Id, name: String, var_id: Id, var: String, attrs: Vec<Attr> },
    Stanza(Stanza),
}

#[derive(Clone, Debug, PartialEq, Default)]
pub struct GProg {
    pub items: Vec<Item>,
}

impl GProg {
    pub fn stanzas(&self) -> impl Iterator<Item = &Stanza> {
        self.items.iter().filter_map(|i| match i {
            Item::Stanza(s) => Some(s),
            _ => None,
        })
    }
    pub fn stanzas_mut(&mut self) -> impl Iterator<Item = &mut Stanza> {
        self.items.iter_mut().filter_map(|i| match i {
            Item::Stanza(s) => Some(s),
            _ => None,
        })
    }
    pub fn globals(&self) -> Vec<(&str, Quant, Option<&str>)> {
        self.items
            .iter()
            .filter_map(|i| match i {
                Item::Global { name, quant, default, .. } => Some((name.as_str(), *quant, default.as_deref())),
                _ => None,
            })
            .collect()
    }
    pub fn inherited(&self) -> Vec<&str> {
        self.items
            .iter()
            .filter_map(|i| match i {
                Item::Inherit { name } => Some(name.as_str()),
                _ => None,
            })
            .collect()
    }
    pub fn shorthand(&self, name: &str) -> Option<(&str, &Vec<Attr>)> {
        // the last declaration of a name wins (the library stores them in a map)
        self.items.iter().rev().find_map(|i| match i {
            Item::Shorthand { name: n, var, attrs, .. } if n == name => Some((var.as_str(), attrs)),
            _ => None,
        })
    }
    pub fn shorthand_count(&self) -> usize {
        let mut names: Vec<&str> = self
            .items
            .iter()
            .filter_map(|i| match i {
                Item::Shorthand { name, .. } => Some(name.as_str()),
                _ => None,
            })
            .collect();
        names.sort();
        names.dedup();
        names.len()
    }
}

// ------------------------------------------------------------------------------------------------
// Walkers

pub fn walk_stmts<'a>(stmts: &'a [Stmt], depth: usize, f: &mut dyn FnMut(&'a Stmt, usize)) {
    for s in stmts {
        f(s, depth);
        match s {
            Stmt::Scan { arms, .. } => {
                for a in arms {
                    walk_stmts(&a.body, depth + 1, f);
                }
            }
            Stmt::If { arms, .. } => {
                for a in arms {
                    walk_stmts(&a.body, depth + 1, f);
                }
            }
            Stmt::For { body, .. } => walk_stmts(body, depth + 1, f),
            _ => {}
        }
    }
}

pub fn stmt_exprs<'a>(s: &'a Stmt) -> Vec<&'a Expr> {
    let mut out: Vec<&Expr> = vec![];
    fn var<'a>(v: &'a VarRef, out: &mut Vec<&'a Expr>) {
        if let VarRef::Scoped { scope, .. } = v {
            out.push(scope);
        }
    }
    fn attrs<'a>(a: &'a [Attr], out: &mut Vec<&'a Expr>) {
        for x in a {
            if let Some(v) = &x.value {
                out.push(v);
            }
        }
    }
    match s {
        Stmt::Let { var: v, value, .. } | Stmt::Var { var: v, value, .. } | Stmt::Set { var: v, value, .. } => {
            out.push(value);
            var(v, &mut out);
        }
        Stmt::Node { var: v, .. } => var(v, &mut out),
        Stmt::Edge { src, dst, .. } => {
            out.push(src);
            out.push(dst);
        }
        Stmt::AttrNode { node, attrs: a, .. } => {
            out.push(node);
            attrs(a, &mut out);
        }
        Stmt::AttrEdge { src, dst, attrs: a, .. } => {
            out.push(src);
            out.push(dst);
            attrs(a, &mut out);
        }
        Stmt::Print { values, .. } => out.extend(values.iter()),
        Stmt::Scan { value, .. } => out.push(value),
        Stmt::If { arms, .. } => {
            for a in arms {
                for c in &a.conds {
                    out.push(c.expr());
                }
            }
        }
        Stmt::For { value, .. } => out.push(value),
    }
    out
}

pub fn walk_expr<'a>(e: &'a Expr, f: &mut dyn FnMut(&'a Expr)) {
    f(e);
    match e {
        Expr::List(xs) | Expr::Set(xs) => xs.iter().for_each(|x| walk_expr(x, f)),
        Expr::ListComp { elem, src, .. } | Expr::SetComp { elem, src, .. } => {
            walk_expr(src, f);
            walk_expr(elem, f);
        }
        Expr::Scoped { scope, .. } => walk_expr(scope, f),
        Expr::Call { args, .. } => args.iter().for_each(|x| walk_expr(x, f)),
        _ => {}
    }
}

/// Names of captures referenced anywhere in the statements.
pub fn used_captures(stmts: &[Stmt]) -> Vec<String> {
    let mut out = vec![];
    walk_stmts(stmts, 0, &mut |s, _| {
        for e in stmt_exprs(s) {
            walk_expr(e, &mut |x| {
                if let Expr::Capture { name, .. } = x {
                    if !out.contains(name) {
                        out.push(name.clone());
                    }
                }
            });
        }
    });
    out
}

// ------------------------------------------------------------------------------------------------
// Printer

#[derive(Clone, Copy, Debug, PartialEq, Eq, Default, PartialOrd, Ord)]
pub struct Loc {
    pub row: usize,
    pub col: usize,
}

#[derive(Default, Debug, Clone)]
pub struct Printed {
    pub text: String,
    pub locs: BTreeMap<Id, Loc>,
    /// stanza id -> location just after its closing brace
    pub stanza_end: BTreeMap<Id, Loc>,
    /// layout features used (for non-triviality labels)
    pub comments: usize,
    pub multiline_queries: usize,
    pub after_multibyte: usize,
}

pub struct Printer<'a, 'b> {
    out: Printed,
    row: usize,
    col: usize,
    /// random layout source; None = canonical layout
    layout: Option<&'a mut Tape<'b>>,
    indent: usize,
    line_has_multibyte: bool,
}

const COMMENTS: &[&str] = &["; note", ";", "; é→ü { } \" ( ", "; let x = 1"];

impl<'a, 'b> Printer<'a, 'b> {
    pub fn canonical() -> Printer<'static, 'static> {
        Printer { out: Printed::default(), row: 0, col: 0, layout: None, indent: 0, line_has_multibyte: false }
    }
    pub fn random(tape: &'a mut Tape<'b>) -> Printer<'a, 'b> {
        Printer { out: Printed::default(), row: 0, col: 0, layout: Some(tape), indent: 0, line_has_multibyte: false }
    }

    fn emit(&mut self, s: &str) {
        for ch in s.chars() {
            if ch == '\n' {
                self.row += 1;
                self.col = 0;
                self.line_has_multibyte = false;
            } else {
                self.col += 1;
                if ch.len_utf8() > 1 {
                    self.line_has_multibyte = true;
                }
            }
        }
        self.out.text.push_str(s);
    }

    fn here(&self) -> Loc {
        Loc { row: self.row, col: self.col }
    }

    fn mark(&mut self, id: Id) {
        let l = self.here();
        if self.line_has_multibyte {
            self.out.after_multibyte += 1;
        }
        self.out.locs.insert(id, l);
    }

    /// Optional separator: nothing in canonical layout.
    fn opt(&mut self) {
        if self.layout.is_some() {
            self.sep(false, false);
        }
    }

    /// Optional separator, one space in canonical layout.
    fn space(&mut self) {
        if self.layout.is_some() {
            self.sep(true, false);
        } else {
            self.emit(" ");
        }
    }

    /// Separator between statements / items: newline + indent in canonical layout.
    fn newline(&mut self) {
        if self.layout.is_some() {
            self.sep(true, true);
        } else {
            let s = format!("\n{}", "  ".repeat(self.indent));
            self.emit(&s);
        }
    }

    /// Random separator. `mandatory`: at least one whitespace character (and that first character
    /// is plain whitespace, never a comment).
    fn sep(&mut self, mandatory: bool, prefer_newline: bool) {
        let t = self.layout.as_mut().unwrap();
        let n = if mandatory { 1 + t.weighted(&[12, 3, 1]) } else { t.weighted(&[10, 4, 2, 1]) };
        let mut pieces: Vec<String> = vec![];
        for i in 0..n {
            let t = self.layout.as_mut().unwrap();
            let k = if prefer_newline && i == 0 { t.weighted(&[1, 1, 8, 2, 0]) } else { t.weighted(&[10, 2, 3, 1, if i == 0 && mandatory { 0 } else { 2 }]) };
            let piece = match k {
                0 => " ".to_string(),
                1 => "\t".to_string(),
                2 => format!("\n{}", "  ".repeat(self.indent)),
                3 => {
                    if t.chance(1, 6) {
                        "\r\n".to_string()
                    } else {
                        "  \n\n ".to_string()
                    }
                }
                _ => {
                    let c = COMMENTS[t.choose(COMMENTS.len())];
                    format!("{}\n", c)
                }
            };
            if piece.starts_with(';') {
                self.out.comments += 1;
            }
            pieces.push(piece);
        }
        let s = pieces.concat();
        self.emit(&s);
    }

    fn string_lit(&mut self, s: &str) {
        let mut out = String::from("\"");
        for ch in s.chars() {
            let fancy = self.layout.as_mut().map(|t| t.chance(1, 4)).unwrap_or(false);
            match ch {
                '"' => out.push_str("\\\""),
                '\\' => out.push_str("\\\\"),
                '\0' => out.push_str("\\0"),
                '\n' => {
                    if fancy {
                        out.push('\n')
                    } else {
                        out.push_str("\\n")
                    }
                }
                '\r' => out.push_str("\\r"),
                '\t' => {
                    if fancy {
                        out.push('\t')
                    } else {
                        out.push_str("\\t")
                    }
                }
                // an unnecessary escape: `\c` is `c` for any character without a meaning
                c if fancy && !matches!(c, '0' | 'n' | 'r' | 't') => {
                    out.push('\\');
                    out.push(c);
                }
                c => out.push(c),
            }
        }
        out.push('"');
        self.emit(&out);
    }

    fn trailing_comma(&mut self) -> bool {
        self.layout.as_mut().map(|t| t.chance(1, 4)).unwrap_or(false)
    }

    pub fn expr(&mut self, e: &Expr) {
        match e {
            Expr::Null => self.emit("#null"),
            Expr::True => self.emit("#true"),
            Expr::False => self.emit("#false"),
            Expr::Int(v, zeros) => {
                let s = format!("{}{}", "0".repeat(*zeros as usize), v);
                self.emit(&s);
            }
            Expr::Str(s) => self.string_lit(s),
            Expr::List(xs) => self.seq('[', ']', xs),
            Expr::Set(xs) => self.seq('{', '}', xs),
            Expr::ListComp { id, elem, var_id, var, src } => self.comp('[', ']', *id, elem, *var_id, var, src),
            Expr::SetComp { id, elem, var_id, var, src } => self.comp('{', '}', *id, elem, *var_id, var, src),
            Expr::Capture { id, name } => {
                self.mark(*id);
                let s = format!("@{}", name);
                self.emit(&s);
            }
            Expr::Var { id, name } => {
                self.mark(*id);
                self.emit(name);
            }
            Expr::Scoped { id, scope, name } => {
                self.expr(scope);
                self.opt();
                self.emit(".");
                self.opt();
                self.mark(*id);
                self.emit(name);
            }
            Expr::Call { func, args } => {
                self.emit("(");
                self.opt();
                self.emit(func);
                for a in args {
                    self.space();
                    self.expr(a);
                }
                self.opt();
                self.emit(")");
            }
            Expr::RegexCap(n) => {
                let s = format!("${}", n);
                self.emit(&s);
            }
            Expr::Raw(s) => self.emit(s),
        }
    }

    fn seq(&mut self, open: char, close: char, xs: &[Expr]) {
        self.emit(&open.to_string());
        self.opt();
        for (i, x) in xs.iter().enumerate() {
            if i > 0 {
                self.emit(",");
                self.space();
            }
            self.expr(x);
            self.opt();
        }
        if !xs.is_empty() && self.trailing_comma() {
            self.emit(",");
            self.opt();
        }
        self.emit(&close.to_string());
    }

    fn comp(&mut self, open: char, close: char, id: Id, elem: &Expr, var_id: Id, var: &str, src: &Expr) {
        self.mark(id);
        self.emit(&open.to_string());
        self.space();
        self.expr(elem);
        self.space();
        self.emit("for");
        self.space();
        self.mark(var_id);
        self.emit(var);
        self.space();
        self.emit("in");
        self.space();
        self.expr(src);
        self.space();
        self.emit(&close.to_string());
    }

    fn var(&mut self, v: &VarRef) {
        self.expr(&v.to_expr());
    }

    fn attrs(&mut self, attrs: &[Attr]) {
        for (i, a) in attrs.iter().enumerate() {
            if i > 0 {
                self.emit(",");
                self.space();
            }
            self.emit(&a.name);
            if let Some(v) = &a.value {
                self.space();
                self.emit("=");
                self.space();
                self.expr(v);
            }
            if i + 1 < attrs.len() {
                self.opt();
            }
        }
    }

    fn block(&mut self, stmts: &[Stmt]) {
        self.emit("{");
        self.indent += 1;
        for s in stmts {
            self.newline();
            self.stmt(s);
        }
        self.indent -= 1;
        self.newline();
        self.emit("}");
    }

    pub fn stmt(&mut self, s: &Stmt) {
        self.mark(s.id());
        match s {
            Stmt::Let { var, value, .. } | Stmt::Var { var, value, .. } | Stmt::Set { var, value, .. } => {
                self.emit(match s {
                    Stmt::Let { .. } => "let",
                    Stmt::Var { .. } => "var",
                    _ => "set",
                });
                self.space();
                self.var(var);
                self.space();
                self.emit("=");
                self.space();
                self.expr(value);
            }
            Stmt::Node { var, .. } => {
                self.emit("node");
                self.space();
                self.var(var);
            }
            Stmt::Edge { src, dst, .. } => {
                self.emit("edge");
                self.space();
                self.expr(src);
                self.space();
                self.emit("->");
                self.space();
                self.expr(dst);
            }
            Stmt::AttrNode { node, attrs, .. } => {
                self.emit("attr");
                self.space();
                self.emit("(");
                self.opt();
                self.expr(node);
                self.opt();
                self.emit(")");
                self.space();
                self.attrs(attrs);
            }
            Stmt::AttrEdge { src, dst, attrs, .. } => {
                self.emit("attr");
                self.space();
                self.emit("(");
                self.opt();
                self.expr(src);
                self.space();
                self.emit("->");
                self.space();
                self.expr(dst);
                self.opt();
                self.emit(")");
                self.space();
                self.attrs(attrs);
            }
            Stmt::Print { values, .. } => {
                self.emit("print");
                self.space();
                for (i, v) in values.iter().enumerate() {
                    if i > 0 {
                        self.emit(",");
                        self.space();
                    }
                    self.expr(v);
                    if i + 1 < values.len() {
                        self.opt();
                    }
                }
            }
            Stmt::Scan { value, arms, .. } => {
                self.emit("scan");
                self.space();
                self.expr(value);
                self.space();
                self.emit("{");
                self.indent += 1;
                for a in arms {
                    self.newline();
                    self.string_lit(&a.regex);
                    self.space();
                    self.block(&a.body);
                }
                self.indent -= 1;
                self.newline();
                self.emit("}");
            }
            Stmt::If { arms, .. } => {
                for (i, a) in arms.iter().enumerate() {
                    if i == 0 {
                        // the first arm is located at the `if` keyword
                        let l = self.here();
                        self.out.locs.insert(a.id, l);
                        self.emit("if");
                        self.space();
                    } else if a.conds.is_empty() {
                        self.space();
                        self.mark(a.id);
                        self.emit("else");
                        self.space();
                    } else {
                        self.space();
                        self.mark(a.id);
                        self.emit("elif");
                        self.space();
                    }
                    for (j, c) in a.conds.iter().enumerate() {
                        if j > 0 {
                            self.emit(",");
                            self.space();
                        }
                        self.mark(c.id());
                        match c {
                            Cond::Some(_, e) => {
                                self.emit("some");
                                self.space();
                                self.expr(e);
                            }
                            Cond::None(_, e) => {
                                self.emit("none");
                                self.space();
                                self.expr(e);
                            }
                            Cond::Bool(_, e) => self.expr(e),
                        }
                        self.opt();
                    }
                    if !a.conds.is_empty() {
                        self.space();
                    }
                    self.block(&a.body);
                }
            }
            Stmt::For { var_id, var, value, body, .. } => {
                self.emit("for");
                self.space();
                self.mark(*var_id);
                self.emit(var);
                self.space();
                self.emit("in");
                self.space();
                self.expr(value);
                self.space();
                self.block(body);
            }
        }
    }

    pub fn item(&mut self, item: &Item) {
        match item {
            Item::Global { id, name, quant, default } => {
                self.emit("global");
                self.space();
                self.mark(*id);
                self.emit(name);
                self.emit(quant.suffix());
                if let Some(d) = default {
                    self.space();
                    self.emit("=");
                    self.space();
                    self.string_lit(d);
                } else if *quant == Quant::One {
                    // the character after a bare name must be plain whitespace
                }
            }
            Item::Inherit { name } => {
                self.emit("inherit");
                self.space();
                self.emit(".");
                self.emit(name);
            }
            Item::Shorthand { id, name, var_id, var, attrs } => {
                self.emit("attribute");
                self.space();
                self.mark(*id);
                self.emit(name);
                self.space();
                self.emit("=");
                self.space();
                self.mark(*var_id);
                self.emit(var);
                self.space();
                self.emit("=>");
                self.space();
                self.attrs(attrs);
            }
            Item::Stanza(s) => {
                self.mark(s.id);
                if s.query.contains('\n') {
                    self.out.multiline_queries += 1;
                }
                if s.query.contains(';') {
                    self.out.comments += 1;
                }
                self.emit(&s.query);
                self.space();
                self.block(&s.body);
                let l = self.here();
                self.out.stanza_end.insert(s.id, l);
            }
        }
    }

    pub fn prog(mut self, p: &GProg) -> Printed {
        if self.layout.is_some() {
            self.opt();
        }
        for (i, item) in p.items.iter().enumerate() {
            if i > 0 {
                // a bare `global name` must be followed by a plain whitespace character: both
                // layouts start item separators with one
                if self.layout.is_some() {
                    self.emit("\n");
                    self.opt();
                } else {
                    self.emit("\n\n");
                }
            }
            self.item(item);
        }
        self.emit("\n");
        self.out
    }
}

pub fn print_canonical(p: &GProg) -> Printed {
    Printer::canonical().prog(p)
}

pub fn print_random(p: &GProg, tape: &mut Tape) -> Printed {
    Printer::random(tape).prog(p)
}

// ------------------------------------------------------------------------------------------------
// Id allocation helper

#[derive(Default)]
pub struct Ids(pub usize);

impl Ids {
    pub fn next(&mut self) -> Id {
        self.0 += 1;
        self.0
    }
}
