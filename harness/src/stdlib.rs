//! S6 — model of the standard library, written from src/reference/functions.rs over CVal.
//! `Err(why)` means the documented contract is broken and the call must fail.

use crate::cval::{display, CVal};
use crate::tree::TreeIndex;

pub const FUNCTIONS: &[&str] = &[
    "eq",
    "is-null",
    "node",
    "not",
    "and",
    "or",
    "plus",
    "format",
    "replace",
    "concat",
    "is-empty",
    "join",
    "length",
    "named-child-index",
    "named-child-count",
    "source-text",
    "node-type",
    "start-column",
    "start-row",
    "end-column",
    "end-row",
];

pub enum CallResult {
    Value(CVal),
    /// a fresh graph node must be created and returned
    NewNode,
}

fn arity(args: &[CVal], n: usize) -> Result<(), String> {
    if args.len() != n {
        Err(format!("expects {} argument(s), got {}", n, args.len()))
    } else {
        Ok(())
    }
}

fn as_bool(v: &CVal) -> Result<bool, String> {
    match v {
        CVal::Bool(b) => Ok(*b),
        o => Err(format!("expected a boolean, got {}", o.type_name())),
    }
}
fn as_int(v: &CVal) -> Result<u32, String> {
    match v {
        CVal::Int(b) => Ok(*b),
        o => Err(format!("expected an integer, got {}", o.type_name())),
    }
}
fn as_str(v: &CVal) -> Result<&str, String> {
    match v {
        CVal::Str(b) => Ok(b),
        o => Err(format!("expected a string, got {}", o.type_name())),
    }
}
fn as_list(v: &CVal) -> Result<&Vec<CVal>, String> {
    match v {
        CVal::List(b) => Ok(b),
        o => Err(format!("expected a list, got {}", o.type_name())),
    }
}
fn as_syn(v: &CVal) -> Result<usize, String> {
    match v {
        CVal::Syn(b) => Ok(*b),
        o => Err(format!("expected a syntax node, got {}", o.type_name())),
    }
}

pub fn call(name: &str, args: &[CVal], index: &TreeIndex, source: &str) -> Result<CallResult, String> {
    use CallResult::Value as V;
    match name {
        "eq" => {
            arity(args, 2)?;
            let (a, b) = (&args[0], &args[1]);
            // null is comparable to anything; otherwise the types must agree
            if matches!(a, CVal::Null) || matches!(b, CVal::Null) {
                return Ok(V(CVal::Bool(matches!(a, CVal::Null) && matches!(b, CVal::Null))));
            }
            if std::mem::discriminant(a) != std::mem::discriminant(b) {
                return Err(format!("cannot compare {} with {}", a.type_name(), b.type_name()));
            }
            Ok(V(CVal::Bool(a == b)))
        }
        "is-null" => {
            arity(args, 1)?;
            Ok(V(CVal::Bool(matches!(args[0], CVal::Null))))
        }
        "node" => {
            arity(args, 0)?;
            Ok(CallResult::NewNode)
        }
        "not" => {
            arity(args, 1)?;
            Ok(V(CVal::Bool(!as_bool(&args[0])?)))
        }
        "and" => {
            let mut r = true;
            for a in args {
                r &= as_bool(a)?;
            }
            Ok(V(CVal::Bool(r)))
        }
        "or" => {
            let mut r = false;
            for a in args {
                r |= as_bool(a)?;
            }
            Ok(V(CVal::Bool(r)))
        }
        "plus" => {
            let mut r: u32 = 0;
            for a in args {
                r = r.checked_add(as_int(a)?).ok_or_else(|| "integer overflow".to_string())?;
            }
            Ok(V(CVal::Int(r)))
        }
        "format" => {
            if args.is_empty() {
                return Err("missing format string".into());
            }
            let fmt = as_str(&args[0])?;
            let mut rest = args[1..].iter();
            let mut out = String::new();
            let mut chars = fmt.chars();
            while let Some(c) = chars.next() {
                match c {
                    '{' => match chars.next() {
                        Some('{') => out.push('{'),
                        Some('}') => {
                            let v = rest.next().ok_or_else(|| "more placeholders than arguments".to_string())?;
                            out.push_str(&display(v, index));
                        }
                        _ => return Err("unexpected character or end after `{`".into()),
                    },
                    '}' => match chars.next() {
                        Some('}') => out.push('}'),
                        _ => return Err("unexpected character or end after `}`".into()),
                    },
                    c => out.push(c),
                }
            }
            if rest.next().is_some() {
                return Err("more arguments than placeholders".into());
            }
            Ok(V(CVal::Str(out)))
        }
        "replace" => {
            arity(args, 3)?;
            let text = as_str(&args[0])?;
            let pattern = as_str(&args[1])?;
            let replacement = as_str(&args[2])?;
            let re = regex::Regex::new(pattern).map_err(|e| format!("invalid regex: {}", e))?;
            Ok(V(CVal::Str(re.replace_all(text, replacement).to_string())))
        }
        "concat" => {
            let mut out = vec![];
            for a in args {
                out.extend(as_list(a)?.iter().cloned());
            }
            Ok(V(CVal::List(out)))
        }
        "is-empty" => {
            arity(args, 1)?;
            Ok(V(CVal::Bool(as_list(&args[0])?.is_empty())))
        }
        "length" => {
            arity(args, 1)?;
            Ok(V(CVal::Int(as_list(&args[0])?.len() as u32)))
        }
        "join" => {
            if args.is_empty() || args.len() > 2 {
                return Err(format!("expects 1 or 2 arguments, got {}", args.len()));
            }
            let list = as_list(&args[0])?;
            let sep = if args.len() == 2 { as_str(&args[1])? } else { "" };
            Ok(V(CVal::Str(list.iter().map(|x| display(x, index)).collect::<Vec<_>>().join(sep))))
        }
        "named-child-index" => {
            arity(args, 1)?;
            let n = &index.nodes[as_syn(&args[0])?];
            if n.parent.is_none() {
                return Err("root node has no parent".into());
            }
            match n.named_index {
                Some(i) => Ok(V(CVal::Int(i as u32))),
                None => Err("not a named child".into()),
            }
        }
        "named-child-count" => {
            arity(args, 1)?;
            Ok(V(CVal::Int(index.nodes[as_syn(&args[0])?].named_children as u32)))
        }
        "source-text" => {
            arity(args, 1)?;
            let n = &index.nodes[as_syn(&args[0])?];
            Ok(V(CVal::Str(source[n.start_byte..n.end_byte].to_string())))
        }
        "node-type" => {
            arity(args, 1)?;
            Ok(V(CVal::Str(index.nodes[as_syn(&args[0])?].kind.to_string())))
        }
        "start-column" => {
            arity(args, 1)?;
            Ok(V(CVal::Int(index.nodes[as_syn(&args[0])?].start_col as u32)))
        }
        "start-row" => {
            arity(args, 1)?;
            Ok(V(CVal::Int(index.nodes[as_syn(&args[0])?].start_row as u32)))
        }
        "end-column" => {
            arity(args, 1)?;
            Ok(V(CVal::Int(index.nodes[as_syn(&args[0])?].end_col as u32)))
        }
        "end-row" => {
            arity(args, 1)?;
            Ok(V(CVal::Int(index.nodes[as_syn(&args[0])?].end_row as u32)))
        }
        other => Err(format!("undefined function {}", other)),
    }
}
