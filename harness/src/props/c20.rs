//! C20 — execution errors identify the failing statement, stanza and matched node
//! (reference model + single injected run-time fault).

use super::common::*;
use crate::dsl::*;
use crate::engine::*;
use crate::gen::GenCfg;
use crate::interp::{stanza_matches, Outcome};
use crate::lib_api::*;
use crate::pysrc;
use crate::tree::TreeIndex;
use serde_json::json;
use std::collections::BTreeSet;
use tree_sitter_graph::ExecutionError;

/// ids of all statements nested inside `stmts` (any depth)
fn nested_ids(stmts: &[Stmt], out: &mut BTreeSet<Id>) {
    walk_stmts(stmts, 0, &mut |s, _| {
        out.insert(s.id());
    });
}

fn find_stmt<'a>(stmts: &'a [Stmt], id: Id) -> Option<&'a Stmt> {
    let mut found = None;
    walk_stmts(stmts, 0, &mut |s, _| {
        if s.id() == id {
            found = Some(s);
        }
    });
    found
}


/// Patterns whose matches have pairwise different roots (one match per node).
const CROSS_PATTERNS: &[(&str, &str)] = &[
    ("(identifier) @x", "x"),
    ("(expression_statement) @x", "x"),
    ("(call) @x", "x"),
    ("(assignment left: (identifier) @x)", "x"),
    ("(function_definition name: (identifier) @x)", "x"),
    ("(call function: (identifier) @x)", "x"),
    ("(integer) @x", "x"),
];
const CROSS_DEFINERS: &[(&str, &str)] = &[("(module) @m", "m"), ("(function_definition) @m", "m"), ("(block) @m", "m"), ("(class_definition) @m", "m")];

/// A conflict of one statement with itself across two matches: every match of a stanza reaches
/// the same graph node / edge / syntax node through inherited scoped variables and gives it a
/// value that depends on the match.  Returns the program and the conflicting statement's id.
pub fn cross_match_scenario(t: &mut Tape) -> (GProg, Id, &'static str) {
    let mut ids = Ids::default();
    let mut items: Vec<Item> = vec![];
    for name in ["sink", "sink2", "anchor"] {
        items.push(Item::Inherit { name: name.to_string() });
    }
    let cap = |ids: &mut Ids, name: &str| Expr::Capture { id: ids.next(), name: name.to_string() };
    let cs = |ids: &mut Ids, capture: &str, name: &str| {
        let c0 = Expr::Capture { id: ids.next(), name: capture.to_string() };
        Expr::Scoped { id: ids.next(), scope: Box::new(c0), name: name.to_string() }
    };
    // definers: the module always, sometimes nearer ancestors as well
    let mut stanzas: Vec<Item> = vec![];
    let ndef = 1 + t.weighted(&[5, 3, 1]);
    for k in 0..ndef {
        let (pattern, c) = if k == 0 { CROSS_DEFINERS[0] } else { CROSS_DEFINERS[1 + t.choose(CROSS_DEFINERS.len() - 1)] };
        if k > 0 && stanzas.iter().any(|s| matches!(s, Item::Stanza(st) if st.query == pattern)) {
            continue;
        }
        let mut body = vec![];
        for name in ["sink", "sink2"] {
            body.push(Stmt::Node { id: ids.next(), var: VarRef::Scoped { id: ids.next(), scope: cap(&mut ids, c), name: name.to_string() } });
        }
        body.push(Stmt::Let { id: ids.next(), var: VarRef::Scoped { id: ids.next(), scope: cap(&mut ids, c), name: "anchor".into() }, value: cap(&mut ids, c) });
        stanzas.push(Item::Stanza(Stanza { id: ids.next(), query: pattern.to_string(), captures: vec![Cap { name: c.to_string(), quant: Quant::One }], body, pool: usize::MAX }));
    }
    // bystander stanza
    if t.chance(1, 2) {
        let body = vec![
            Stmt::Node { id: ids.next(), var: VarRef::Scoped { id: ids.next(), scope: cap(&mut ids, "id"), name: "n".into() } },
            Stmt::AttrNode { id: ids.next(), node: cs(&mut ids, "id", "n"), attrs: vec![Attr { name: "text".into(), value: Some(Expr::Call { func: "source-text".into(), args: vec![cap(&mut ids, "id")] }) }] },
        ];
        stanzas.push(Item::Stanza(Stanza { id: ids.next(), query: "(identifier) @id".into(), captures: vec![Cap { name: "id".into(), quant: Quant::One }], body, pool: usize::MAX }));
    }
    let (pattern, c) = CROSS_PATTERNS[t.choose(CROSS_PATTERNS.len())];
    let value = match t.choose(4) {
        0 => Expr::Call { func: "source-text".into(), args: vec![cap(&mut ids, c)] },
        1 => Expr::Call { func: "start-row".into(), args: vec![cap(&mut ids, c)] },
        2 => Expr::Call { func: "start-column".into(), args: vec![cap(&mut ids, c)] },
        _ => Expr::Call { func: "format".into(), args: vec![Expr::Str("{}:{}".into()), Expr::Call { func: "start-row".into(), args: vec![cap(&mut ids, c)] }, Expr::Call { func: "start-column".into(), args: vec![cap(&mut ids, c)] }] },
    };
    let mut body: Vec<Stmt> = vec![];
    let kind;
    let fault_id;
    let conflicting = match t.choose(3) {
        0 => {
            kind = "cross-match-attr-conflict";
            fault_id = ids.next();
            let node = cs(&mut ids, c, "sink");
            Stmt::AttrNode { id: fault_id, node, attrs: vec![Attr { name: "k".into(), value: Some(value) }] }
        }
        1 => {
            kind = "cross-match-edge-attr-conflict";
            let (a, b) = (cs(&mut ids, c, "sink"), cs(&mut ids, c, "sink2"));
            body.push(Stmt::Edge { id: ids.next(), src: a, dst: b });
            fault_id = ids.next();
            let (a, b) = (cs(&mut ids, c, "sink"), cs(&mut ids, c, "sink2"));
            Stmt::AttrEdge { id: fault_id, src: a, dst: b, attrs: vec![Attr { name: "k".into(), value: Some(value) }] }
        }
        _ => {
            kind = "cross-match-duplicate-scoped";
            body.push(Stmt::Let { id: ids.next(), var: VarRef::Plain { id: ids.next(), name: "a".into() }, value: cs(&mut ids, c, "anchor") });
            fault_id = ids.next();
            Stmt::Let { id: fault_id, var: VarRef::Scoped { id: ids.next(), scope: Expr::Var { id: ids.next(), name: "a".into() }, name: "dup".into() }, value }
        }
    };
    // at the top of the block or nested in it
    let wrapped = match t.weighted(&[3, 2, 2]) {
        0 => conflicting,
        1 => Stmt::If { id: ids.next(), arms: vec![IfArm { id: ids.next(), conds: vec![Cond::Bool(ids.next(), Expr::True)], body: vec![conflicting] }] },
        _ => Stmt::For { id: ids.next(), var_id: ids.next(), var: "z".into(), value: Expr::List(vec![Expr::Int(1, 0)]), body: vec![conflicting] },
    };
    body.push(wrapped);
    let reader = Item::Stanza(Stanza { id: ids.next(), query: pattern.to_string(), captures: vec![Cap { name: c.to_string(), quant: Quant::One }], body, pool: usize::MAX });
    stanzas.push(reader);
    items.extend(stanzas);
    (GProg { items }, fault_id, kind)
}

pub fn case(tape: &[u32]) -> CaseOutcome {
    if tape.len() == 2 && tape[0] == ZERO_WIDTH_TAG {
        return zero_width_probe(tape[1] as usize);
    }
    let (aux, main) = split_tape(tape);
    let mut t = Tape::new(&aux);
    let mut gt = Tape::new(&main);
    let mut cfg = GenCfg::fragment();
    cfg.fault = true;
    cfg.risk = 0;
    cfg.prints = false;
    cfg.max_stanzas = 5;
    cfg.edge_idiom = false;
    let cross = t.chance(1, 6);
    let program = if cross {
        let (prog, fault_id, kind) = cross_match_scenario(&mut gt);
        let printed = if t.chance(1, 2) { print_canonical(&prog) } else { print_random(&prog, &mut gt) };
        let mut features = BTreeSet::new();
        features.insert("cross-match-scenario");
        Program { gen: crate::gen::Generated { prog, globals: Default::default(), features, fault: Some(kind), fault_id: Some(fault_id), fault_pair: Some((fault_id, fault_id)) }, printed }
    } else {
        make_program(&mut gt, &cfg)
    };
    let dsl = &program.printed.text;
    let locs = &program.printed.locs;
    // trees with many matches
    let mut source = if t.chance(1, 2) { pysrc::RICH[t.choose(pysrc::RICH.len())].to_string() } else { pysrc::gen_source(&mut t) };
    // a sixth of the trees have syntax errors: zero-width MISSING nodes and empty recovery nodes
    // can be what a stanza matches
    if t.chance(1, 6) {
        source = if t.chance(1, 3) { "def f(x):\n  return x.\n".to_string() } else { pysrc::inject_faults(&mut t, &source, 1) };
    }
    let fault_id = match program.gen.fault_id {
        Some(i) => i,
        None => return CaseOutcome::Discard("no fault statement was placed"),
    };
    let file = match load_valid("C20", dsl) {
        Ok(f) => f,
        Err(o) => return o,
    };
    let tree = pysrc::parse(&source);
    let index = TreeIndex::new(&tree);
    let model = model_run(&program.gen.prog, &tree, &index, &source, &program.gen.globals, Default::default());
    let site = match &model.outcome {
        Outcome::Err(e) => match &e.site {
            Some(s) => s.clone(),
            None => return CaseOutcome::Discard("failure without a statement site"),
        },
        Outcome::Ok => return CaseOutcome::Discard("the injected fault is not reached on this tree"),
        Outcome::Inconclusive(_) => return CaseOutcome::Discard("reference interpreter inconclusive"),
    };
    // only faults caused by the injected statement (the rest of the program is valid by construction)
    if !site.path.contains(&fault_id) {
        return CaseOutcome::Discard("another statement fails first");
    }
    let stanzas: Vec<&Stanza> = program.gen.prog.stanzas().collect();
    let stanza = stanzas[site.stanza];
    let stanza_loc = locs[&stanza.id];
    let failing_loc = locs[site.path.last().unwrap()];
    let root = &index.nodes[site.root];
    // every match root of that stanza (lazy may report any firing match)
    let roots: Vec<(String, usize, usize)> = match stanza_matches(stanza, &tree, &index, &source) {
        Ok(ms) => ms.iter().filter_map(|m| m.root).map(|r| (index.nodes[r].kind.to_string(), index.nodes[r].start_row, index.nodes[r].start_col)).collect(),
        Err(_) => return CaseOutcome::Discard("reference matching inconclusive"),
    };
    // statements enclosing the failing one, and everything nested in the fault statement
    let enclosing: BTreeSet<(usize, usize)> = site.path.iter().filter_map(|id| locs.get(id)).map(|l| (l.row, l.col)).collect();
    let mut fault_family: BTreeSet<Id> = BTreeSet::new();
    if let Some(s) = find_stmt(&stanza.body, fault_id) {
        nested_ids(std::slice::from_ref(s), &mut fault_family);
    }
    for id in &site.path {
        fault_family.insert(*id);
    }
    let family_locs: BTreeSet<(usize, usize)> = fault_family.iter().filter_map(|id| locs.get(id)).map(|l| (l.row, l.col)).collect();

    let mut report = CaseReport::default();
    report.evaluations = 0;
    let mut labels = vec![];
    let dsl_lines: Vec<&str> = dsl.lines().collect();
    let src_lines: Vec<&str> = source.lines().collect();
    for lazy in [false, true] {
        let mode = if lazy { "lazy" } else { "strict" };
        let d = |extra| detail(dsl, &source, &program.gen.globals, extra);
        let (actual, _) = run_capped(&file, &tree, &index, &source, &program.gen.globals, &ExecOpts { lazy, debug: None }, model.poll_cap());
        report.evaluations += 1;
        let err = match actual {
            LibRun::Err(e) => e,
            LibRun::Panic(p) => return CaseOutcome::Fail(Failure::new(format!("C20:{}:{}", mode, p.signature()), p.message, d(json!({})))),
            LibRun::Ok(_) => {
                if lazy && !matches!(&model.outcome, Outcome::Err(e) if e.kind.order_independent()) {
                    labels.push("lazy-ok-for-order-dependent-fault".to_string());
                    continue;
                }
                return CaseOutcome::Fail(Failure::new(format!("C20:{}:no-error", mode), format!("{} execution succeeded although the injected fault `{}` is reached", mode, program.gen.fault.unwrap_or("?")), d(json!({}))));
            }
            _ => return CaseOutcome::Fail(Failure::new(format!("C20:{}:bad-run", mode), "poll bound or inconsistent graph".to_string(), d(json!({})))),
        };
        let rendered = format!("{}", err);
        let ctxs = match outer_context(&err) {
            OuterContext::Statement(v) => v,
            OuterContext::Other => {
                return CaseOutcome::Fail(Failure::new(format!("C20:{}:no-statement-context", mode), format!("the outermost context of the {} error is not a statement context: {}", mode, rendered), d(json!({}))));
            }
            OuterContext::None => {
                return CaseOutcome::Fail(Failure::new(format!("C20:{}:no-context", mode), format!("the {} error carries no context at all: {}", mode, rendered), d(json!({}))));
            }
        };
        if ctxs.is_empty() {
            return CaseOutcome::Fail(Failure::new(format!("C20:{}:empty-context", mode), rendered, d(json!({}))));
        }
        let mut fault_identified = true;
        for (ci, c) in ctxs.iter().enumerate() {
            let describe = json!({"context": ci, "statement": c.statement, "statement_location": [c.statement_location.row, c.statement_location.column], "stanza_location": [c.stanza_location.row, c.stanza_location.column], "source_location": [c.source_location.row, c.source_location.column], "node_kind": c.node_kind, "expected_stanza_location": [stanza_loc.row, stanza_loc.col], "expected_statement_location": [failing_loc.row, failing_loc.col], "expected_node": [root.kind, root.start_row, root.start_col], "error": rendered});
            let sl = (c.statement_location.row, c.statement_location.column);
            if lazy {
                // lazy evaluation may surface another (later) failure first: whatever it reports
                // must be consistent - a statement of the cited stanza, a node that stanza matched
                let cited = stanzas.iter().find(|st| locs.get(&st.id).map(|l| (l.row, l.col)) == Some((c.stanza_location.row, c.stanza_location.column)));
                let cited = match cited {
                    Some(st) => *st,
                    None => return CaseOutcome::Fail(Failure::new("C20:lazy:wrong-stanza", format!("the lazy error cites a stanza at ({}, {}) where no stanza starts", c.stanza_location.row + 1, c.stanza_location.column + 1), d(describe))),
                };
                let mut ids = BTreeSet::new();
                nested_ids(&cited.body, &mut ids);
                if !ids.iter().any(|id| locs.get(id).map(|l| (l.row, l.col)) == Some(sl)) {
                    return CaseOutcome::Fail(Failure::new("C20:lazy:wrong-statement", format!("the lazy error cites a statement at ({}, {}) `{}` that is not a statement of the cited stanza", sl.0 + 1, sl.1 + 1, c.statement), d(describe)));
                }
                let cited_roots: Vec<(String, usize, usize)> = match stanza_matches(cited, &tree, &index, &source) {
                    Ok(ms) => ms.iter().filter_map(|m| m.root).map(|r| (index.nodes[r].kind.to_string(), index.nodes[r].start_row, index.nodes[r].start_col)).collect(),
                    Err(_) => continue,
                };
                if !cited_roots.iter().any(|(k, r, col)| k == &c.node_kind && *r == c.source_location.row && *col == c.source_location.column) {
                    return CaseOutcome::Fail(Failure::new("C20:lazy:wrong-matched-node", format!("the lazy error cites a ({}) node at ({}, {}) that the cited stanza did not match", c.node_kind, c.source_location.row + 1, c.source_location.column + 1), d(describe)));
                }
                if cited.id != stanza.id || !(enclosing.contains(&sl) || family_locs.contains(&sl)) {
                    fault_identified = false;
                }
                // the failing value travels through further locals: the statement that fails is
                // the one that computes it (or one enclosing it), not one that passes it on
                if program.gen.fault == Some("type-through-aliases") && cited.id == stanza.id && family_locs.contains(&sl) {
                    if let Some((exact, _)) = program.gen.fault_pair {
                        let exact_loc = locs.get(&exact).map(|l| (l.row, l.col));
                        if Some(sl) != exact_loc && !enclosing.contains(&sl) {
                            return CaseOutcome::Fail(Failure::new("C20:lazy:cites-a-statement-that-passes-the-value-on", format!("the lazy error cites the statement at ({}, {}) `{}`, which only passes the failing value on; it is computed by the statement at {:?}", sl.0 + 1, sl.1 + 1, c.statement, exact_loc.map(|(r, c)| (r + 1, c + 1))), d(describe)));
                        }
                    }
                }
                continue;
            }
            if (c.stanza_location.row, c.stanza_location.column) != (stanza_loc.row, stanza_loc.col) {
                return CaseOutcome::Fail(Failure::new(format!("C20:{}:wrong-stanza", mode), format!("the {} error cites the stanza at ({}, {}), the failing statement is in the stanza at ({}, {})", mode, c.stanza_location.row + 1, c.stanza_location.column + 1, stanza_loc.row + 1, stanza_loc.col + 1), d(describe)));
            }
            if !(c.node_kind == root.kind && c.source_location.row == root.start_row && c.source_location.column == root.start_col) {
                return CaseOutcome::Fail(Failure::new(
                    format!("C20:{}:wrong-matched-node", mode),
                    format!("the {} error cites a ({}) node at ({}, {}); the stanza matched ({}) at ({}, {}) when the fault fired", mode, c.node_kind, c.source_location.row + 1, c.source_location.column + 1, root.kind, root.start_row + 1, root.start_col + 1),
                    d(describe),
                ));
            }
            if sl != (failing_loc.row, failing_loc.col) {
                return CaseOutcome::Fail(Failure::new(
                    format!("C20:{}:wrong-statement", mode),
                    format!("the {} error cites the statement at ({}, {}) `{}`; the failing statement is at ({}, {})", mode, sl.0 + 1, sl.1 + 1, c.statement, failing_loc.row + 1, failing_loc.col + 1),
                    d(describe),
                ));
            }
        }
        if lazy {
            labels.push(if fault_identified { "lazy:fault-identified".to_string() } else { "lazy:another-failure-surfaces-first".to_string() });
        }
        let _ = &roots;
        // conflicts found during lazy evaluation name both statements
        if lazy && fault_identified && (cross || matches!(program.gen.fault, Some("attr-conflict") | Some("edge-attr-conflict") | Some("duplicate-scoped"))) {
            // both contexts: exactly the two conflicting statements
            if let (Some((first, second)), 2) = (program.gen.fault_pair, ctxs.len()) {
                let want: BTreeSet<(usize, usize)> = [locs[&first], locs[&second]].iter().map(|l| (l.row, l.col)).collect();
                let got: BTreeSet<(usize, usize)> = ctxs.iter().map(|c| (c.statement_location.row, c.statement_location.column)).collect();
                let v = variant_name(root_cause(&err));
                if (v == "DuplicateAttribute" || v == "DuplicateVariable") && got != want {
                    return CaseOutcome::Fail(Failure::new(
                        "C20:lazy:conflict-names-wrong-statements",
                        format!("the conflict is between the statements at {:?}; the error names the statements at {:?}: {}", want.iter().map(|(r, c)| (r + 1, c + 1)).collect::<Vec<_>>(), got.iter().map(|(r, c)| (r + 1, c + 1)).collect::<Vec<_>>(), rendered),
                        d(json!({})),
                    ));
                }
            }
            // duplicate scoped variable: the reference run knows which statement defined it first
            if let (Some(prev), Some(last), 2, "DuplicateVariable") = (model.conflict_with, site.path.last(), ctxs.len(), variant_name(root_cause(&err))) {
                if let (Some(lp), Some(ll)) = (locs.get(&prev), locs.get(last)) {
                    let want: BTreeSet<(usize, usize)> = [(lp.row, lp.col), (ll.row, ll.col)].into_iter().collect();
                    let got: BTreeSet<(usize, usize)> = ctxs.iter().map(|c| (c.statement_location.row, c.statement_location.column)).collect();
                    if got != want {
                        return CaseOutcome::Fail(Failure::new(
                            "C20:lazy:conflict-names-wrong-statements",
                            format!("the variable is defined twice by the statements at {:?}; the error names the statements at {:?}: {}", want.iter().map(|(r, c)| (r + 1, c + 1)).collect::<Vec<_>>(), got.iter().map(|(r, c)| (r + 1, c + 1)).collect::<Vec<_>>(), rendered),
                            d(json!({})),
                        ));
                    }
                    labels.push("lazy:duplicate-pair-from-the-reference-run".into());
                }
            }
            let v = variant_name(root_cause(&err));
            if (v == "DuplicateAttribute" || v == "DuplicateVariable") && ctxs.len() != 2 {
                return CaseOutcome::Fail(Failure::new("C20:lazy:conflict-names-one-statement", format!("a conflict between two statements found during lazy evaluation names {} statement(s): {}", ctxs.len(), rendered), d(json!({}))));
            }
            if ctxs.len() == 2 {
                let a = (ctxs[0].statement_location.row, ctxs[0].statement_location.column);
                let b = (ctxs[1].statement_location.row, ctxs[1].statement_location.column);
                let one_statement = matches!(program.gen.fault_pair, Some((x, y)) if x == y);
                if a == b && !one_statement && matches!(program.gen.fault, Some("attr-conflict") | Some("edge-attr-conflict")) {
                    return CaseOutcome::Fail(Failure::new("C20:lazy:conflict-names-same-statement-twice", format!("both contexts of the conflict cite the same statement: {}", rendered), d(json!({}))));
                }
                // one statement in conflict with itself on two matches: both matches are named
                if cross {
                    let m = |c: &StmtCtx| (c.node_kind.clone(), c.source_location.row, c.source_location.column);
                    // nested nodes of one kind can start at the same position (`a()()`): only a
                    // position that a single match root has counts as "the same match twice"
                    let same_position_roots = roots.iter().filter(|r| (r.0.clone(), r.1, r.2) == m(&ctxs[0])).count();
                    if m(&ctxs[0]) == m(&ctxs[1]) && same_position_roots < 2 {
                        return CaseOutcome::Fail(Failure::new("C20:lazy:conflict-names-one-match-twice", format!("the statement conflicts with itself on two different matches, both contexts cite the same matched node: {}", rendered), d(json!({}))));
                    }
                    labels.push("lazy:cross-match-conflict-names-both-matches".into());
                }
                labels.push("lazy:two-sided-conflict-context".into());
            }
        }
        // pretty rendering shows the cited DSL and source lines
        let pretty = match render_exec_error(&err, &source, dsl) {
            Ok((_, p)) => p,
            Err(p) => return CaseOutcome::Fail(Failure::new(format!("C20:{}:render-{}", mode, p.signature()), p.message, d(json!({})))),
        };
        for c in &ctxs {
            for (what, line) in [("statement", dsl_lines.get(c.statement_location.row)), ("stanza", dsl_lines.get(c.stanza_location.row)), ("source", src_lines.get(c.source_location.row))] {
                if let Some(l) = line {
                    if !pretty.contains(l) {
                        return CaseOutcome::Fail(Failure::new(format!("C20:{}:pretty-misses-{}-line", mode, what), format!("display_pretty does not show the cited {} line {:?}", what, l), d(json!({"pretty": pretty}))));
                    }
                }
            }
        }
        labels.push(format!("{}:checked", mode));
    }
    let depth = site.path.len();
    labels.push(format!("fault:{}", program.gen.fault.unwrap_or("?")));
    labels.push(format!("depth:{}", depth.min(4)));
    if site.stanza >= 1 {
        labels.push("stanza>=2".into());
    }
    if site.match_no >= 1 {
        labels.push("fires-first-in-match>=2".into());
    }
    report.fingerprint = fingerprint(&(dsl, &source));
    report.nontrivial = depth >= 2 || site.stanza >= 1 || site.match_no >= 1;
    report.labels = labels;
    report.sample = Some(json!({"dsl": dsl, "source": source, "fault": program.gen.fault, "site": {"stanza": site.stanza, "match": site.match_no, "depth": depth}}));
    CaseOutcome::Pass(report)
}

/// One statement context of an error, recovered from the error's `Debug` rendering (the `Context`
/// type itself sits in a private module of the library).
#[derive(Debug, Clone)]
pub struct Pos {
    pub row: usize,
    pub column: usize,
}
#[derive(Debug, Clone)]
pub struct StmtCtx {
    pub statement: String,
    pub statement_location: Pos,
    pub stanza_location: Pos,
    pub source_location: Pos,
    pub node_kind: String,
}

pub enum OuterContext {
    Statement(Vec<StmtCtx>),
    Other,
    None,
}

pub fn outer_context(err: &ExecutionError) -> OuterContext {
    let dbg = format!("{:?}", err);
    if !dbg.starts_with("InContext(") {
        return OuterContext::None;
    }
    if !dbg.starts_with("InContext(Statement([") {
        return OuterContext::Other;
    }
    let re = regex::Regex::new(r#"StatementContext \{ statement: "((?:[^"\\]|\\.)*)", statement_location: Location \{ row: (\d+), column: (\d+) \}, stanza_location: Location \{ row: (\d+), column: (\d+) \}, source_location: Location \{ row: (\d+), column: (\d+) \}, node_kind: "([^"]*)" \}"#).unwrap();
    let mut out = vec![];
    for c in re.captures_iter(&dbg) {
        let n = |i: usize| c[i].parse::<usize>().unwrap_or(usize::MAX);
        out.push(StmtCtx {
            statement: c[1].to_string(),
            statement_location: Pos { row: n(2), column: n(3) },
            stanza_location: Pos { row: n(4), column: n(5) },
            source_location: Pos { row: n(6), column: n(7) },
            node_kind: c[8].to_string(),
        });
    }
    if out.is_empty() {
        // the derived Debug rendering is not an interface: fall back on the message text
        // `Error executing S at (r, c) in stanza at (r, c) matching (KIND) node at (r, c)[ and executing ...]`
        let text = format!("{}", err);
        let head = text.split(". Caused by").next().unwrap_or("");
        let re2 = regex::Regex::new(r"(?:Error executing|and executing) (.*?) at \((\d+), (\d+)\) in stanza at \((\d+), (\d+)\) matching \(([^)]*)\) node at \((\d+), (\d+)\)").unwrap();
        for c in re2.captures_iter(head) {
            let n = |i: usize| c[i].parse::<usize>().ok().and_then(|x| x.checked_sub(1)).unwrap_or(usize::MAX);
            out.push(StmtCtx {
                statement: c[1].to_string(),
                statement_location: Pos { row: n(2), column: n(3) },
                stanza_location: Pos { row: n(4), column: n(5) },
                source_location: Pos { row: n(7), column: n(8) },
                node_kind: c[6].to_string(),
            });
        }
        if out.is_empty() {
            harness_error(format!("C20: cannot read the statement contexts of an error, neither from Debug nor from the message: {}", text));
        }
    }
    OuterContext::Statement(out)
}

const ZERO_WIDTH_TAG: u32 = 0xFFFF_FF20;

/// Fixed probe: the stanza matches every named node, the fault sits behind a test that lets it
/// fire on the first node without text (a zero-width recovery node at the end of a line); the
/// pretty rendering has to show that node's source line.
fn zero_width_probe(i: usize) -> CaseOutcome {
    let source = ["def f(x):\n  return x.\n", "class A:\n  def m(self):\n    return self.\nx = 1\n"][i % 2];
    let lazy = i >= 2;
    let dsl = "(_) @n {\n  if (eq (source-text @n) \"\") {\n    let bad = (plus \"a\" 1)\n  }\n}\n";
    let file = match load(dsl) {
        Ok(Ok(f)) => f,
        _ => return CaseOutcome::Discard("probe file rejected"),
    };
    let tree = pysrc::parse(source);
    let index = TreeIndex::new(&tree);
    let target = match index.nodes.iter().find(|n| n.named && n.start_byte == n.end_byte) {
        Some(n) => n.clone(),
        None => return CaseOutcome::Discard("no zero-width named node in the probe source"),
    };
    let (r, _) = run(&file, &tree, &index, source, &Default::default(), &ExecOpts { lazy, debug: None });
    let err = match r {
        LibRun::Err(e) => e,
        LibRun::Panic(p) => return CaseOutcome::Fail(Failure::new(format!("C20:probe:{}", p.signature()), p.message, json!({"dsl": dsl, "source": source}))),
        _ => return CaseOutcome::Fail(Failure::new("C20:probe:no-error", "the fault on the zero-width node did not fire".to_string(), json!({"dsl": dsl, "source": source}))),
    };
    let pretty = match render_exec_error(&err, source, dsl) {
        Ok((_, p)) => p,
        Err(p) => return CaseOutcome::Fail(Failure::new(format!("C20:probe:render-{}", p.signature()), p.message, json!({"dsl": dsl, "source": source}))),
    };
    let line = source.lines().nth(target.start_row).unwrap_or("");
    if !pretty.contains(line) || !pretty.contains("let bad = (plus") {
        return CaseOutcome::Fail(Failure::new(
            "C20:probe:pretty-misses-source-line",
            format!("display_pretty does not show the source line {:?} of the zero-width ({}) node the stanza matched, or the DSL line of the failing statement", line, target.kind),
            json!({"dsl": dsl, "source": source, "pretty": pretty, "lazy": lazy}),
        ));
    }
    CaseOutcome::Pass(CaseReport { fingerprint: fingerprint(&("zero-width-probe", i)), nontrivial: true, labels: vec!["probe:zero-width-match-at-end-of-line".into()], counters: vec![], sample: None, evaluations: 1 })
}

pub fn spec(tier: &str) -> Spec {
    let mut s = Spec::new("C20", tier, 6_000, 80_000, 1200);
    s.rule = "valid generated programs (risky choices switched off) with exactly one run-time fault from the catalogue (type errors, unknown function, conflicting attribute, duplicate / undefined scoped variable, undefined edge, bad regex capture, format arity, overflow, failing call inside a list, free variable in a shorthand) injected at a random statement position and block depth, on trees with many matches; cases where the fault is not reached or another statement fails first are discarded. Both modes. Oracle: the reference interpreter's first failure site. The error must be InContext(Statement ..): stanza location = start of that stanza's query, node kind / position = the node the stanza matched when the fault fired (strict: that match; lazy: any match of the stanza), statement location = the failing statement (strict) or the failing statement, one nested in the fault construct or one enclosing it (lazy); lazy conflicts carry two statement contexts; display_pretty contains the cited DSL lines and the source line. Non-trivial: fault at block depth >= 1, or in stanza >= 2, or firing first in match >= 2. Distinct = fingerprint of (DSL text, source).".into();
    s.assumptions = vec!["statement, stanza and variable locations are those recorded by the harness's printer (cross-checked against the parser by C07)".into()];
    s
}

pub fn run_check(tier: &str) -> i32 {
    let started = std::time::Instant::now();
    let spec = spec(tier);
    let probes: Vec<usize> = (0..4).collect();
    let r0 = run_fixed(&spec, &probes, |i| zero_width_probe(*i), |i| vec![ZERO_WIDTH_TAG, *i as u32]);
    let result = merge_results(r0, run_tapes(&spec, case));
    finish(&spec, result, started)
}
