//! C07 — parsing recovers exactly the written program and its source locations (round trip:
//! print with a random layout, parse, compare with the AST the printer knows it wrote).

use super::common::*;
use crate::dsl::*;
use crate::engine::*;
use crate::gen::GenCfg;
use crate::pool::{self, POOL};
use crate::pysrc;
use serde_json::json;
use std::collections::BTreeSet;
use tree_sitter::CaptureQuantifier;
use tree_sitter_graph::ast;
use tree_sitter_graph::{Identifier, Location};

const IDENTS: &[&str] = &[
    "x", "y", "v1", "something", "none_left", "format", "in_x", "letter", "node-id", "iffy", "forever", "scanner", "edge-case", "attribute_x", "globals", "inherit_it", "elif_x", "else-where", "true_x", "null-y", "some_thing", "none-such", "_u", "a-b-c", "printer", "variable", "settings", "Ünï", "名前",
];
const STRS: &[&str] = &["", "a", "plain", "q\"uote", "back\\slash", "nl\nline", "tab\tx", "cr\r", "nul\0", "é", "日本語", "; not a comment", "{ brace }", "#true", "@cap", "$1", "mixed \"é\" \\n", "'", "->"];
const REGEXES: &[&str] = &["a", "[ab]+", "\\d+", "([^/]+)/", "\\.py$", "é+", "\"", "\\\\", "a|b", "\\s"];
const FUNCS: &[&str] = &["node", "plus", "format", "source-text", "is-null", "some-function", "_f", "forward", "letter-count"];
const EXTRA_QUERIES: &[&str] = &[
    "((identifier) @x (#eq? @x \"{\"))",
    "(call\n  ; a comment with a { brace and a \" quote\n  function: (identifier) @f\n  arguments: (argument_list) @args)",
    "(module\n\n  (expression_statement) @s)",
    "((identifier) @x\n (#match? @x \"^[a-z]{2}\"))",
    "(string) @s ; trailing comment\n",
    "[\n  (identifier)\n  (integer)\n] @either",
];

struct F<'t, 'b> {
    t: &'t mut Tape<'b>,
    ids: Ids,
    kinds: BTreeSet<&'static str>,
    keyword_idents: usize,
}

impl<'t, 'b> F<'t, 'b> {
    fn ident(&mut self) -> String {
        let i = IDENTS[self.t.choose(IDENTS.len())];
        if ["something", "none_left", "format", "in_x", "letter", "node-id", "iffy", "forever", "scanner", "edge-case", "attribute_x", "globals", "inherit_it", "elif_x", "else-where", "true_x", "null-y", "some_thing", "none-such", "printer", "variable", "settings"].contains(&i) {
            self.keyword_idents += 1;
        }
        i.to_string()
    }

    fn expr(&mut self, depth: usize) -> Expr {
        let leaf = depth >= 5;
        let k = if leaf { self.t.choose(8) } else { self.t.weighted(&[1, 1, 1, 3, 4, 3, 4, 2, 3, 3, 2, 2, 3]) };
        match k {
            0 => Expr::Null,
            1 => Expr::True,
            2 => Expr::False,
            3 => {
                let v = *self.t.pick(&[0u32, 1, 7, 10, 42, 1000000, 4294967295]);
                let zeros = if self.t.chance(1, 5) { 1 + self.t.choose(3) as u8 } else { 0 };
                Expr::Int(v, zeros)
            }
            4 => Expr::Str(STRS[self.t.choose(STRS.len())].to_string()),
            5 => Expr::Capture { id: self.ids.next(), name: self.ident() },
            6 => Expr::Var { id: self.ids.next(), name: self.ident() },
            7 => Expr::RegexCap(*self.t.pick(&[0usize, 1, 2, 10, 123])),
            8 => {
                let n = self.t.choose(4);
                Expr::List((0..n).map(|_| self.expr(depth + 1)).collect())
            }
            9 => {
                let n = self.t.choose(4);
                Expr::Set((0..n).map(|_| self.expr(depth + 1)).collect())
            }
            10 => {
                let list = self.t.chance(1, 2);
                let id = self.ids.next();
                let elem = Box::new(self.expr(depth + 1));
                let var_id = self.ids.next();
                let var = self.ident();
                let src = Box::new(self.expr(depth + 1));
                if list {
                    Expr::ListComp { id, elem, var_id, var, src }
                } else {
                    Expr::SetComp { id, elem, var_id, var, src }
                }
            }
            11 => {
                let scope = self.expr(depth + 1);
                Expr::Scoped { id: self.ids.next(), scope: Box::new(scope), name: self.ident() }
            }
            _ => {
                let n = self.t.choose(4);
                Expr::Call { func: FUNCS[self.t.choose(FUNCS.len())].to_string(), args: (0..n).map(|_| self.expr(depth + 1)).collect() }
            }
        }
    }

    fn var(&mut self, depth: usize) -> VarRef {
        if self.t.chance(1, 2) {
            VarRef::Plain { id: self.ids.next(), name: self.ident() }
        } else {
            let scope = self.expr(depth + 2);
            VarRef::Scoped { id: self.ids.next(), scope, name: self.ident() }
        }
    }

    fn attrs(&mut self, depth: usize) -> Vec<Attr> {
        let n = 1 + self.t.choose(3);
        (0..n)
            .map(|_| Attr { name: self.ident(), value: if self.t.chance(1, 5) { None } else { Some(self.expr(depth + 1)) } })
            .collect()
    }

    fn block(&mut self, depth: usize) -> Vec<Stmt> {
        let n = if depth >= 4 { self.t.choose(2) } else { self.t.choose(4) };
        (0..n).map(|_| self.stmt(depth)).collect()
    }

    fn cond(&mut self, depth: usize) -> Cond {
        let id = self.ids.next();
        // the condition expression must not start like a block or the some/none keywords
        let e = loop {
            let e = self.expr(depth + 2);
            if !matches!(e, Expr::Set(_) | Expr::SetComp { .. }) {
                break e;
            }
        };
        match self.t.choose(3) {
            0 => Cond::Some(id, e),
            1 => Cond::None(id, e),
            _ => Cond::Bool(id, e),
        }
    }

    fn stmt(&mut self, depth: usize) -> Stmt {
        let id = self.ids.next();
        let k = if depth >= 4 { self.t.choose(8) } else { self.t.choose(11) };
        let s = match k {
            0 => Stmt::Let { id, var: self.var(depth), value: self.expr(depth + 1) },
            1 => Stmt::Var { id, var: self.var(depth), value: self.expr(depth + 1) },
            2 => Stmt::Set { id, var: self.var(depth), value: self.expr(depth + 1) },
            3 => Stmt::Node { id, var: self.var(depth) },
            4 => Stmt::Edge { id, src: self.expr(depth + 1), dst: self.expr(depth + 1) },
            5 => Stmt::AttrNode { id, node: self.expr(depth + 1), attrs: self.attrs(depth) },
            6 => Stmt::AttrEdge { id, src: self.expr(depth + 1), dst: self.expr(depth + 1), attrs: self.attrs(depth) },
            7 => {
                let n = 1 + self.t.choose(3);
                Stmt::Print { id, values: (0..n).map(|_| self.expr(depth + 1)).collect() }
            }
            8 => {
                let value = loop {
                    let e = self.expr(depth + 2);
                    if !matches!(e, Expr::Set(_) | Expr::SetComp { .. }) {
                        break e;
                    }
                };
                let n = self.t.choose(4);
                let arms = (0..n).map(|_| ScanArm { regex: REGEXES[self.t.choose(REGEXES.len())].to_string(), body: self.block(depth + 1) }).collect();
                Stmt::Scan { id, value, arms }
            }
            9 => {
                let n = 1 + self.t.choose(3);
                let mut arms = vec![];
                for i in 0..n {
                    let is_else = i > 0 && i == n - 1 && self.t.chance(1, 2);
                    let arm_id = self.ids.next();
                    let conds = if is_else { vec![] } else { (0..1 + self.t.choose(2)).map(|_| self.cond(depth)).collect() };
                    arms.push(IfArm { id: arm_id, conds, body: self.block(depth + 1) });
                }
                Stmt::If { id, arms }
            }
            _ => {
                let value = loop {
                    let e = self.expr(depth + 2);
                    if !matches!(e, Expr::Set(_) | Expr::SetComp { .. }) || self.t.chance(1, 2) {
                        break e;
                    }
                };
                Stmt::For { id, var_id: self.ids.next(), var: self.ident(), value, body: self.block(depth + 1) }
            }
        };
        self.kinds.insert(s.kind());
        s
    }
}

/// A syntactically valid (not necessarily checkable) program over every form of the grammar.
fn gen_free(t: &mut Tape) -> (GProg, usize, usize) {
    let mut f = F { t, ids: Ids::default(), kinds: BTreeSet::new(), keyword_idents: 0 };
    let mut items = vec![];
    let nitems = 1 + f.t.choose(6);
    let mut sh = 0;
    for _ in 0..nitems {
        match f.t.weighted(&[2, 1, 2, 8]) {
            0 => {
                let quant = [Quant::One, Quant::Opt, Quant::Star, Quant::Plus][f.t.choose(4)];
                let default = if f.t.chance(1, 2) { Some(STRS[f.t.choose(STRS.len())].to_string()) } else { None };
                items.push(Item::Global { id: f.ids.next(), name: f.ident(), quant, default });
            }
            1 => items.push(Item::Inherit { name: f.ident() }),
            2 => {
                sh += 1;
                let attrs = f.attrs(1);
                items.push(Item::Shorthand { id: f.ids.next(), name: format!("{}{}", f.ident(), sh), var_id: f.ids.next(), var: f.ident(), attrs });
            }
            _ => {
                let query = if f.t.chance(1, 4) {
                    EXTRA_QUERIES[f.t.choose(EXTRA_QUERIES.len())].to_string()
                } else {
                    let e = &POOL[f.t.choose(POOL.len())];
                    let names: Vec<(&str, String)> = e.caps.iter().enumerate().map(|(i, (ph, _))| (*ph, format!("{}{}", IDENTS[f.t.choose(IDENTS.len() - 2)].replace('-', "_"), i))).collect();
                    pool::instantiate(e.pattern, &names)
                };
                let body = f.block(0);
                items.push(Item::Stanza(Stanza { id: f.ids.next(), query, captures: vec![], body, pool: usize::MAX }));
            }
        }
    }
    let kinds = f.kinds.len();
    let kw = f.keyword_idents;
    (GProg { items }, kinds, kw)
}

// ------------------------------------------------------------------------------------------------
// expected AST

struct Conv<'a> {
    locs: &'a std::collections::BTreeMap<Id, Loc>,
}

impl<'a> Conv<'a> {
    fn loc(&self, id: Id) -> Location {
        let l = self.locs[&id];
        Location { row: l.row, column: l.col }
    }
    fn unscoped(&self, id: Id, name: &str) -> ast::UnscopedVariable {
        ast::UnscopedVariable { name: Identifier::from(name), location: self.loc(id) }
    }
    fn expr(&self, e: &Expr) -> ast::Expression {
        match e {
            Expr::Null => ast::Expression::NullLiteral,
            Expr::True => ast::Expression::TrueLiteral,
            Expr::False => ast::Expression::FalseLiteral,
            Expr::Int(v, _) => ast::IntegerConstant { value: *v }.into(),
            Expr::Str(s) => ast::StringConstant { value: s.clone() }.into(),
            Expr::List(xs) => ast::ListLiteral { elements: xs.iter().map(|x| self.expr(x)).collect() }.into(),
            Expr::Set(xs) => ast::SetLiteral { elements: xs.iter().map(|x| self.expr(x)).collect() }.into(),
            Expr::ListComp { id, elem, var_id, var, src } => ast::ListComprehension { element: Box::new(self.expr(elem)), variable: self.unscoped(*var_id, var), value: Box::new(self.expr(src)), location: self.loc(*id) }.into(),
            Expr::SetComp { id, elem, var_id, var, src } => ast::SetComprehension { element: Box::new(self.expr(elem)), variable: self.unscoped(*var_id, var), value: Box::new(self.expr(src)), location: self.loc(*id) }.into(),
            Expr::Capture { id, name } => ast::Capture { name: Identifier::from(name.as_str()), quantifier: CaptureQuantifier::Zero, file_capture_index: usize::MAX, stanza_capture_index: usize::MAX, location: self.loc(*id) }.into(),
            Expr::Var { id, name } => self.unscoped(*id, name).into(),
            Expr::Scoped { id, scope, name } => ast::ScopedVariable { scope: Box::new(self.expr(scope)), name: Identifier::from(name.as_str()), location: self.loc(*id) }.into(),
            Expr::Call { func, args } => ast::Call { function: Identifier::from(func.as_str()), parameters: args.iter().map(|x| self.expr(x)).collect() }.into(),
            Expr::RegexCap(n) => ast::RegexCapture { match_index: *n }.into(),
            Expr::Raw(_) => ast::Expression::NullLiteral,
        }
    }
    fn var(&self, v: &VarRef) -> ast::Variable {
        match v {
            VarRef::Plain { id, name } => self.unscoped(*id, name).into(),
            VarRef::Scoped { id, scope, name } => ast::ScopedVariable { scope: Box::new(self.expr(scope)), name: Identifier::from(name.as_str()), location: self.loc(*id) }.into(),
        }
    }
    fn attrs(&self, a: &[Attr]) -> Vec<ast::Attribute> {
        a.iter().map(|x| ast::Attribute { name: Identifier::from(x.name.as_str()), value: x.value.as_ref().map(|v| self.expr(v)).unwrap_or(ast::Expression::TrueLiteral) }).collect()
    }
    fn stmts(&self, s: &[Stmt]) -> Vec<ast::Statement> {
        s.iter().map(|x| self.stmt(x)).collect()
    }
    fn stmt(&self, s: &Stmt) -> ast::Statement {
        let location = self.loc(s.id());
        match s {
            Stmt::Let { var, value, .. } => ast::DeclareImmutable { variable: self.var(var), value: self.expr(value), location }.into(),
            Stmt::Var { var, value, .. } => ast::DeclareMutable { variable: self.var(var), value: self.expr(value), location }.into(),
            Stmt::Set { var, value, .. } => ast::Assign { variable: self.var(var), value: self.expr(value), location }.into(),
            Stmt::Node { var, .. } => ast::CreateGraphNode { node: self.var(var), location }.into(),
            Stmt::Edge { src, dst, .. } => ast::CreateEdge { source: self.expr(src), sink: self.expr(dst), location }.into(),
            Stmt::AttrNode { node, attrs, .. } => ast::AddGraphNodeAttribute { node: self.expr(node), attributes: self.attrs(attrs), location }.into(),
            Stmt::AttrEdge { src, dst, attrs, .. } => ast::AddEdgeAttribute { source: self.expr(src), sink: self.expr(dst), attributes: self.attrs(attrs), location }.into(),
            Stmt::Print { values, .. } => ast::Print { values: values.iter().map(|v| self.expr(v)).collect(), location }.into(),
            Stmt::Scan { value, arms, .. } => ast::Scan {
                value: self.expr(value),
                arms: arms.iter().map(|a| ast::ScanArm { regex: regex::Regex::new(&a.regex).unwrap(), statements: self.stmts(&a.body), location }).collect(),
                location,
            }
            .into(),
            Stmt::If { arms, .. } => ast::If {
                arms: arms
                    .iter()
                    .map(|a| ast::IfArm {
                        conditions: a
                            .conds
                            .iter()
                            .map(|c| match c {
                                Cond::Some(id, e) => ast::Condition::Some { value: self.expr(e), location: self.loc(*id) },
                                Cond::None(id, e) => ast::Condition::None { value: self.expr(e), location: self.loc(*id) },
                                Cond::Bool(id, e) => ast::Condition::Bool { value: self.expr(e), location: self.loc(*id) },
                            })
                            .collect(),
                        statements: self.stmts(&a.body),
                        location: self.loc(a.id),
                    })
                    .collect(),
                location,
            }
            .into(),
            Stmt::For { var_id, var, value, body, .. } => ast::ForIn { variable: self.unscoped(*var_id, var), value: self.expr(value), statements: self.stmts(body), location }.into(),
        }
    }
}

fn quant(q: Quant) -> CaptureQuantifier {
    match q {
        Quant::One => CaptureQuantifier::One,
        Quant::Opt => CaptureQuantifier::ZeroOrOne,
        Quant::Star => CaptureQuantifier::ZeroOrMore,
        Quant::Plus => CaptureQuantifier::OneOrMore,
    }
}

/// Reset the fields the checker fills in, so that a checked AST can be compared with the parse-only
/// expectation.  Returns the (name, quantifier) pairs that were set.
fn reset_captures(stmts: &mut [ast::Statement], seen: &mut Vec<(String, CaptureQuantifier)>) {
    fn ex(e: &mut ast::Expression, seen: &mut Vec<(String, CaptureQuantifier)>) {
        match e {
            ast::Expression::Capture(c) => {
                seen.push((c.name.to_string(), c.quantifier));
                c.quantifier = CaptureQuantifier::Zero;
                c.file_capture_index = usize::MAX;
                c.stanza_capture_index = usize::MAX;
            }
            ast::Expression::ListLiteral(l) => l.elements.iter_mut().for_each(|x| ex(x, seen)),
            ast::Expression::SetLiteral(l) => l.elements.iter_mut().for_each(|x| ex(x, seen)),
            ast::Expression::ListComprehension(c) => {
                ex(&mut c.element, seen);
                ex(&mut c.value, seen);
            }
            ast::Expression::SetComprehension(c) => {
                ex(&mut c.element, seen);
                ex(&mut c.value, seen);
            }
            ast::Expression::Variable(ast::Variable::Scoped(v)) => ex(&mut v.scope, seen),
            ast::Expression::Call(c) => c.parameters.iter_mut().for_each(|x| ex(x, seen)),
            _ => {}
        }
    }
    fn var(v: &mut ast::Variable, seen: &mut Vec<(String, CaptureQuantifier)>) {
        if let ast::Variable::Scoped(s) = v {
            ex(&mut s.scope, seen);
        }
    }
    for s in stmts {
        match s {
            ast::Statement::DeclareImmutable(x) => {
                var(&mut x.variable, seen);
                ex(&mut x.value, seen);
            }
            ast::Statement::DeclareMutable(x) => {
                var(&mut x.variable, seen);
                ex(&mut x.value, seen);
            }
            ast::Statement::Assign(x) => {
                var(&mut x.variable, seen);
                ex(&mut x.value, seen);
            }
            ast::Statement::CreateGraphNode(x) => var(&mut x.node, seen),
            ast::Statement::AddGraphNodeAttribute(x) => {
                ex(&mut x.node, seen);
                x.attributes.iter_mut().for_each(|a| ex(&mut a.value, seen));
            }
            ast::Statement::CreateEdge(x) => {
                ex(&mut x.source, seen);
                ex(&mut x.sink, seen);
            }
            ast::Statement::AddEdgeAttribute(x) => {
                ex(&mut x.source, seen);
                ex(&mut x.sink, seen);
                x.attributes.iter_mut().for_each(|a| ex(&mut a.value, seen));
            }
            ast::Statement::Scan(x) => {
                ex(&mut x.value, seen);
                x.arms.iter_mut().for_each(|a| reset_captures(&mut a.statements, seen));
            }
            ast::Statement::Print(x) => x.values.iter_mut().for_each(|v| ex(v, seen)),
            ast::Statement::If(x) => x.arms.iter_mut().for_each(|a| {
                a.conditions.iter_mut().for_each(|c| match c {
                    ast::Condition::Some { value, .. } | ast::Condition::None { value, .. } | ast::Condition::Bool { value, .. } => ex(value, seen),
                });
                reset_captures(&mut a.statements, seen);
            }),
            ast::Statement::ForIn(x) => {
                ex(&mut x.value, seen);
                reset_captures(&mut x.statements, seen);
            }
        }
    }
}

fn first_difference(a: &[ast::Statement], b: &[ast::Statement]) -> String {
    if a.len() != b.len() {
        return format!("{} statements parsed, {} written", a.len(), b.len());
    }
    for (x, y) in a.iter().zip(b.iter()) {
        if x != y {
            // descend into blocks to find the innermost differing statement
            match (x, y) {
                (ast::Statement::If(p), ast::Statement::If(q)) if p.arms.len() == q.arms.len() && p.location == q.location => {
                    for (pa, qa) in p.arms.iter().zip(q.arms.iter()) {
                        if pa.conditions != qa.conditions || pa.location != qa.location {
                            return format!("if arm differs: parsed {:?} at {:?}, written {:?} at {:?}", pa.conditions, pa.location, qa.conditions, qa.location);
                        }
                        if pa.statements != qa.statements {
                            return first_difference(&pa.statements, &qa.statements);
                        }
                    }
                }
                (ast::Statement::ForIn(p), ast::Statement::ForIn(q)) if p.variable == q.variable && p.value == q.value && p.location == q.location => return first_difference(&p.statements, &q.statements),
                (ast::Statement::Scan(p), ast::Statement::Scan(q)) if p.value == q.value && p.location == q.location && p.arms.len() == q.arms.len() => {
                    for (pa, qa) in p.arms.iter().zip(q.arms.iter()) {
                        if pa.regex.as_str() != qa.regex.as_str() {
                            return format!("scan arm regex parsed {:?}, written {:?}", pa.regex.as_str(), qa.regex.as_str());
                        }
                        if pa.location != qa.location {
                            return format!("scan arm location parsed {:?}, written {:?}", pa.location, qa.location);
                        }
                        if pa.statements != qa.statements {
                            return first_difference(&pa.statements, &qa.statements);
                        }
                    }
                }
                _ => {}
            }
            return format!("parsed   {:?}\nwritten  {:?}", x, y);
        }
    }
    "no difference found".into()
}

fn compare(file: &mut ast::File, prog: &GProg, printed: &Printed, checked: bool) -> Result<(), (String, String)> {
    let conv = Conv { locs: &printed.locs };
    // globals
    let want_globals: Vec<ast::Global> = prog
        .items
        .iter()
        .filter_map(|i| match i {
            Item::Global { id, name, quant: q, default } => Some(ast::Global { name: Identifier::from(name.as_str()), quantifier: quant(*q), default: default.clone(), location: conv.loc(*id) }),
            _ => None,
        })
        .collect();
    if file.globals != want_globals {
        return Err(("globals".into(), format!("parsed {:?}\nwritten {:?}", file.globals, want_globals)));
    }
    let want_inherit: std::collections::HashSet<Identifier> = prog.inherited().iter().map(|n| Identifier::from(*n)).collect();
    if file.inherited_variables != want_inherit {
        return Err(("inherit".into(), format!("parsed {:?}\nwritten {:?}", file.inherited_variables, want_inherit)));
    }
    // shorthands
    let mut want_sh = ast::AttributeShorthands::new();
    for i in &prog.items {
        if let Item::Shorthand { id, name, var_id, var, attrs } = i {
            want_sh.add(ast::AttributeShorthand { name: Identifier::from(name.as_str()), variable: conv.unscoped(*var_id, var), attributes: conv.attrs(attrs), location: conv.loc(*id) });
        }
    }
    if file.shorthands != want_sh {
        return Err(("shorthands".into(), format!("parsed {:?}\nwritten {:?}", file.shorthands, want_sh)));
    }
    // stanzas
    let stanzas: Vec<&Stanza> = prog.stanzas().collect();
    if file.stanzas.len() != stanzas.len() {
        return Err(("stanza-count".into(), format!("{} stanzas parsed, {} written", file.stanzas.len(), stanzas.len())));
    }
    for (parsed, written) in file.stanzas.iter_mut().zip(stanzas.iter()) {
        let start = printed.locs[&written.id];
        let end = printed.stanza_end[&written.id];
        if (parsed.range.start.row, parsed.range.start.column) != (start.row, start.col) {
            return Err(("stanza-start".into(), format!("stanza start parsed ({}, {}), written ({}, {})", parsed.range.start.row, parsed.range.start.column, start.row, start.col)));
        }
        if (parsed.range.end.row, parsed.range.end.column) != (end.row, end.col) {
            return Err(("stanza-end".into(), format!("stanza end parsed ({}, {}), written ({}, {})", parsed.range.end.row, parsed.range.end.column, end.row, end.col)));
        }
        if checked {
            let mut seen = vec![];
            reset_captures(&mut parsed.statements, &mut seen);
            for (name, q) in seen {
                if let Some(c) = written.captures.iter().find(|c| c.name == name) {
                    if q != quant(c.quant) {
                        return Err(("capture-quantifier".into(), format!("capture @{} resolved with quantifier {:?}, the query gives {:?}", name, q, c.quant)));
                    }
                }
            }
        }
        let want = conv.stmts(&written.body);
        if parsed.statements != want {
            return Err(("statements".into(), first_difference(&parsed.statements, &want)));
        }
    }
    Ok(())
}

pub fn case(tape: &[u32]) -> CaseOutcome {
    let (aux, main) = split_tape(tape);
    let mut t = Tape::new(&aux);
    let mut gt = Tape::new(&main);
    let checked = t.chance(1, 3);
    let (prog, kinds, kw) = if checked {
        let mut cfg = GenCfg::full();
        cfg.gnode_text = true;
        let g = crate::gen::generate(&mut gt, &cfg);
        let mut kinds = BTreeSet::new();
        for s in g.prog.stanzas() {
            walk_stmts(&s.body, 0, &mut |st, _| {
                kinds.insert(st.kind());
            });
        }
        (g.prog, kinds.len(), 1)
    } else {
        gen_free(&mut gt)
    };
    let mut printed = print_random(&prog, &mut t);
    // a third of the texts end with their last token: no blank, line break or comment after it
    if t.chance(1, 3) {
        let plain_end = !printed.text.trim_end().lines().last().map(|l| l.contains(';')).unwrap_or(false);
        if plain_end {
            let n = printed.text.trim_end().len();
            printed.text.truncate(n);
        }
    }
    let text = &printed.text;
    let d = |extra: serde_json::Value| json!({"dsl": text, "checked": checked, "more": extra});
    #[allow(deprecated)]
    let parsed = call_lib(|| {
        if checked {
            ast::File::from_str(pysrc::lang(), text)
        } else {
            let mut f = ast::File::new(pysrc::lang());
            f.parse(text).map(|_| f)
        }
    });
    let mut file = match parsed {
        Err(p) => return CaseOutcome::Fail(Failure::new(format!("C07:{}", p.signature()), p.message, d(json!({})))),
        Ok(Err(e)) => {
            return CaseOutcome::Fail(Failure::new(
                format!("C07:rejected:{}", format!("{:?}", e).split('(').next().unwrap_or("")),
                format!("a syntactically valid text was rejected: {}", e),
                d(json!({"pretty": format!("{}", e.display_pretty(std::path::Path::new("t.tsg"), text))})),
            ));
        }
        Ok(Ok(f)) => f,
    };
    if let Err((what, why)) = compare(&mut file, &prog, &printed, checked) {
        return CaseOutcome::Fail(Failure::new(format!("C07:ast-differs:{}", what), format!("the parsed AST differs from the written program ({}):\n{}", what, why), d(json!({}))));
    }
    let mut labels = vec![if checked { "checked-program".to_string() } else { "free-form-program".to_string() }];
    if printed.comments > 0 {
        labels.push("comments".into());
    }
    if printed.multiline_queries > 0 {
        labels.push("multi-line-query".into());
    }
    if printed.after_multibyte > 0 {
        labels.push("location-after-multibyte".into());
    }
    if kw > 0 {
        labels.push("keyword-prefixed-identifier".into());
    }
    CaseOutcome::Pass(CaseReport {
        fingerprint: fingerprint(text),
        nontrivial: kinds >= 3 && (printed.comments > 0 || printed.multiline_queries > 0) && (printed.after_multibyte > 0 || kw > 0),
        labels,
        counters: vec![],
        sample: Some(json!({"dsl": text})),
        evaluations: 1,
    })
}

pub fn spec(tier: &str) -> Spec {
    let mut s = Spec::new("C07", tier, 8_000, 150_000, 1800);
    s.rule = "two thirds free-form programs over every statement and expression form (nesting to depth 5, identifiers that begin with keywords or contain non-ASCII letters, strings with every escape and multi-byte characters, integers up to u32::MAX with leading zeros, regex literals, multi-line queries with comments / braces inside strings) parsed with the parse-only entry (File::new + parse), one third checker-valid generated programs parsed with File::from_str; all printed with a random layout (runs of spaces / tabs / newlines / `;` comments with multi-byte text wherever a separator is allowed, raw or escaped newlines and tabs and unnecessary escapes inside strings, optional trailing commas). Oracle: globals, inherit names, shorthands and every stanza's statement list must equal (ast PartialEq) the AST built from the printer's own record, incl. every Location (stanza start and end, statement keyword, unscoped variable, scoped-variable name token, capture, condition, if/elif/else arm, comprehension bracket); after from_str the resolved capture quantifier must be the query's. Non-trivial: >=3 statement kinds, >=1 comment or multi-line query, and a located construct after a multi-byte character on its line or a keyword-prefixed identifier. Distinct = fingerprint of the text.".into();
    s.assumptions = vec![
        "a bare `global name` is followed by a plain whitespace character (comments directly after the name are excluded, DESIGN §4)".into(),
        "scoped-variable locations are those of the name token after the dot (pinned by tests/it/parser.rs)".into(),
    ];
    s
}

pub fn run_check(tier: &str) -> i32 {
    let started = std::time::Instant::now();
    let spec = spec(tier);
    let result = run_tapes(&spec, case);
    finish(&spec, result, started)
}
