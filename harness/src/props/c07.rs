//! C07 — parsing recovers exactly the written program and its source locations (round trip:
//! print with a random layout, parse, compare with the AST the printer knows it wrote).

use super::common::*;
use crate::dsl::*;
use crate::engine::*;
use crate::gen::GenCfg;
use crate::pool::{self, POOL};
use crate::pysrc;
use serde_json::json;
use std::collections::BTreeSet;
use tree_sitter::CaptureQuantifier;
use tree_sitter_graph::ast;
use tree_sitter_graph::Location;

const IDENTS: &[&str] = &[
    "x", "y", "v1", "something", "none_left", "format", "in_x", "letter", "node-id", "iffy", "forever", "scanner", "edge-case", "attribute_x", "globals", "inherit_it", "elif_x", "else-where", "true_x", "null-y", "some_thing", "none-such", "_u", "a-b-c", "printer", "variable", "settings", "Ünï", "名前",
];
const STRS: &[&str] = &["", "a", "plain", "q\"uote", "back\\slash", "nl\nline", "tab\tx", "cr\r", "nul\0", "é", "日本語", "; not a comment", "{ brace }", "#true", "@cap", "$1", "mixed \"é\" \\n", "'", "->"];
const REGEXES: &[&str] = &["a", "[ab]+", "\\d+", "([^/]+)/", "\\.py$", "é+", "\"", "\\\\", "a|b", "\\s"];
const FUNCS: &[&str] = &["node", "plus", "format", "source-text", "is-null", "some-function", "_f", "forward", "letter-count"];
const EXTRA_QUERIES: &[&str] = &[
    "((identifier) @x (#eq? @x \"{\"))",
    "(call\n  ; a comment with a { brace and a \" quote\n  function: (identifier) @f\n  arguments: (argument_list) @args)",
    "(module\n\n  (expression_statement) @s)",
    "((identifier) @x\n (#match? @x \"^[a-z]{2}\"))",
    "(string) @s ; trailing comment\n",
    "[\n  (identifier)\n  (integer)\n] @either",
];

struct F<'t, 'b> {
    t: &'t mut Tape<'b>,
    ids: Ids,
    kinds: BTreeSet<&'static str>,
    keyword_idents: usize,
}

impl<'t, 'b> F<'t, 'b> {
    fn ident(&mut self) -> String {
        let i = IDENTS[self.t.choose(IDENTS.len())];
        if ["something", "none_left", "format", "in_x", "letter", "node-id", "iffy", "forever", "scanner", "edge-case", "attribute_x", "globals", "inherit_it", "elif_x", "else-where", "true_x", "null-y", "some_thing", "none-such", "printer", "variable", "settings"].contains(&i) {
            self.keyword_idents += 1;
        }
        i.to_string()
    }

    fn expr(&mut self, depth: usize) -> Expr {
        let leaf = depth >= 5;
        let k = if leaf { self.t.choose(8) } else { self.t.weighted(&[1, 1, 1, 3, 4, 3, 4, 2, 3, 3, 2, 2, 3]) };
        match k {
            0 => Expr::Null,
            1 => Expr::True,
            2 => Expr::False,
            3 => {
                let v = *self.t.pick(&[0u32, 1, 7, 10, 42, 1000000, 4294967295]);
                let zeros = if self.t.chance(1, 5) { 1 + self.t.choose(3) as u8 } else { 0 };
                Expr::Int(v, zeros)
            }
            4 => Expr::Str(STRS[self.t.choose(STRS.len())].to_string()),
            5 => Expr::Capture { id: self.ids.next(), name: self.ident() },
            6 => Expr::Var { id: self.ids.next(), name: self.ident() },
            7 => Expr::RegexCap(*self.t.pick(&[0usize, 1, 2, 10, 123])),
            8 => {
                let n = self.t.choose(4);
                Expr::List((0..n).map(|_| self.expr(depth + 1)).collect())
            }
            9 => {
                let n = self.t.choose(4);
                Expr::Set((0..n).map(|_| self.expr(depth + 1)).collect())
            }
            10 => {
                let list = self.t.chance(1, 2);
                let id = self.ids.next();
                let elem = Box::new(self.expr(depth + 1));
                let var_id = self.ids.next();
                let var = self.ident();
                let src = Box::new(self.expr(depth + 1));
                if list {
                    Expr::ListComp { id, elem, var_id, var, src }
                } else {
                    Expr::SetComp { id, elem, var_id, var, src }
                }
            }
            11 => {
                let scope = self.expr(depth + 1);
                Expr::Scoped { id: self.ids.next(), scope: Box::new(scope), name: self.ident() }
            }
            _ => {
                let n = self.t.choose(4);
                Expr::Call { func: FUNCS[self.t.choose(FUNCS.len())].to_string(), args: (0..n).map(|_| self.expr(depth + 1)).collect() }
            }
        }
    }

    fn var(&mut self, depth: usize) -> VarRef {
        if self.t.chance(1, 2) {
            VarRef::Plain { id: self.ids.next(), name: self.ident() }
        } else {
            let scope = self.expr(depth + 2);
            VarRef::Scoped { id: self.ids.next(), scope, name: self.ident() }
        }
    }

    fn attrs(&mut self, depth: usize) -> Vec<Attr> {
        let n = 1 + self.t.choose(3);
        (0..n)
            .map(|_| Attr { name: self.ident(), value: if self.t.chance(1, 5) { None } else { Some(self.expr(depth + 1)) } })
            .collect()
    }

    fn block(&mut self, depth: usize) -> Vec<Stmt> {
        let n = if depth >= 4 { self.t.choose(2) } else { self.t.choose(4) };
        (0..n).map(|_| self.stmt(depth)).collect()
    }

    fn cond(&mut self, depth: usize) -> Cond {
        let id = self.ids.next();
        // the condition expression must not start like a block or the some/none keywords
        let e = loop {
            let e = self.expr(depth + 2);
            if !matches!(e, Expr::Set(_) | Expr::SetComp { .. }) {
                break e;
            }
        };
        match self.t.choose(3) {
            0 => Cond::Some(id, e),
            1 => Cond::None(id, e),
            _ => Cond::Bool(id, e),
        }
    }

    fn stmt(&mut self, depth: usize) -> Stmt {
        let id = self.ids.next();
        let k = if depth >= 4 { self.t.choose(8) } else { self.t.choose(11) };
        let s = match k {
            0 => Stmt::Let { id, var: self.var(depth), value: self.expr(depth + 1) },
            1 => Stmt::Var { id, var: self.var(depth), value: self.expr(depth + 1) },
            2 => Stmt::Set { id, var: self.var(depth), value: self.expr(depth + 1) },
            3 => Stmt::Node { id, var: self.var(depth) },
            4 => Stmt::Edge { id, src: self.expr(depth + 1), dst: self.expr(depth + 1) },
            5 => Stmt::AttrNode { id, node: self.expr(depth + 1), attrs: self.attrs(depth) },
            6 => Stmt::AttrEdge { id, src: self.expr(depth + 1), dst: self.expr(depth + 1), attrs: self.attrs(depth) },
            7 => {
                let n = 1 + self.t.choose(3);
                Stmt::Print { id, values: (0..n).map(|_| self.expr(depth + 1)).collect() }
            }
            8 => {
                let value = loop {
                    let e = self.expr(depth + 2);
                    if !matches!(e, Expr::Set(_) | Expr::SetComp { .. }) {
                        break e;
                    }
                };
                let n = self.t.choose(4);
                let arms = (0..n).map(|_| ScanArm { regex: REGEXES[self.t.choose(REGEXES.len())].to_string(), body: self.block(depth + 1) }).collect();
                Stmt::Scan { id, value, arms }
            }
            9 => {
                let n = 1 + self.t.choose(3);
                let mut arms = vec![];
                for i in 0..n {
                    let is_else = i > 0 && i == n - 1 && self.t.chance(1, 2);
                    let arm_id = self.ids.next();
                    let conds = if is_else { vec![] } else { (0..1 + self.t.choose(2)).map(|_| self.cond(depth)).collect() };
                    arms.push(IfArm { id: arm_id, conds, body: self.block(depth + 1) });
                }
                Stmt::If { id, arms }
            }
            _ => {
                let value = loop {
                    let e = self.expr(depth + 2);
                    if !matches!(e, Expr::Set(_) | Expr::SetComp { .. }) || self.t.chance(1, 2) {
                        break e;
                    }
                };
                Stmt::For { id, var_id: self.ids.next(), var: self.ident(), value, body: self.block(depth + 1) }
            }
        };
        self.kinds.insert(s.kind());
        s
    }
}

/// A syntactically valid (not necessarily checkable) program over every form of the grammar.
fn gen_free(t: &mut Tape) -> (GProg, usize, usize) {
    let mut f = F { t, ids: Ids::default(), kinds: BTreeSet::new(), keyword_idents: 0 };
    let mut items = vec![];
    let nitems = 1 + f.t.choose(6);
    let mut sh = 0;
    for _ in 0..nitems {
        match f.t.weighted(&[2, 1, 2, 8]) {
            0 => {
                let quant = [Quant::One, Quant::Opt, Quant::Star, Quant::Plus][f.t.choose(4)];
                let default = if f.t.chance(1, 2) { Some(STRS[f.t.choose(STRS.len())].to_string()) } else { None };
                items.push(Item::Global { id: f.ids.next(), name: f.ident(), quant, default });
            }
            1 => items.push(Item::Inherit { name: f.ident() }),
            2 => {
                sh += 1;
                let attrs = f.attrs(1);
                items.push(Item::Shorthand { id: f.ids.next(), name: format!("{}{}", f.ident(), sh), var_id: f.ids.next(), var: f.ident(), attrs });
            }
            _ => {
                let query = if f.t.chance(1, 4) {
                    EXTRA_QUERIES[f.t.choose(EXTRA_QUERIES.len())].to_string()
                } else {
                    let e = &POOL[f.t.choose(POOL.len())];
                    let names: Vec<(&str, String)> = e.caps.iter().enumerate().map(|(i, (ph, _))| (*ph, format!("{}{}", IDENTS[f.t.choose(IDENTS.len() - 2)].replace('-', "_"), i))).collect();
                    pool::instantiate(e.pattern, &names)
                };
                let body = f.block(0);
                items.push(Item::Stanza(Stanza { id: f.ids.next(), query, captures: vec![], body, pool: usize::MAX }));
            }
        }
    }
    let kinds = f.kinds.len();
    let kw = f.keyword_idents;
    (GProg { items }, kinds, kw)
}

// ------------------------------------------------------------------------------------------------
// comparison: the written program and the parsed AST are both rendered into the same canonical
// lines (one per global / shorthand / statement, nested blocks indented, every location spelled
// out) and compared as text.  The parsed side only READS fields of the library's AST types, so a
// field added to one of them does not stop the harness from compiling.

fn l(loc: &Location) -> String {
    format!("@{}:{}", loc.row, loc.column)
}

struct Written<'a> {
    locs: &'a std::collections::BTreeMap<Id, Loc>,
}

impl<'a> Written<'a> {
    fn loc(&self, id: Id) -> String {
        let x = self.locs[&id];
        format!("@{}:{}", x.row, x.col)
    }
    fn expr(&self, e: &Expr) -> String {
        match e {
            Expr::Null => "#null".into(),
            Expr::True => "#true".into(),
            Expr::False => "#false".into(),
            Expr::Int(v, _) => format!("int({})", v),
            Expr::Str(s) => format!("str({:?})", s),
            Expr::List(xs) => format!("list[{}]", xs.iter().map(|x| self.expr(x)).collect::<Vec<_>>().join(", ")),
            Expr::Set(xs) => format!("set{{{}}}", xs.iter().map(|x| self.expr(x)).collect::<Vec<_>>().join(", ")),
            Expr::ListComp { id, elem, var_id, var, src } => format!("listcomp{}[{} for {}{} in {}]", self.loc(*id), self.expr(elem), var, self.loc(*var_id), self.expr(src)),
            Expr::SetComp { id, elem, var_id, var, src } => format!("setcomp{}[{} for {}{} in {}]", self.loc(*id), self.expr(elem), var, self.loc(*var_id), self.expr(src)),
            Expr::Capture { id, name } => format!("capture(@{}){}", name, self.loc(*id)),
            Expr::Var { id, name } => format!("var({}){}", name, self.loc(*id)),
            Expr::Scoped { id, scope, name } => format!("scoped({} . {}){}", self.expr(scope), name, self.loc(*id)),
            Expr::Call { func, args } => format!("call({}{})", func, args.iter().map(|x| format!(" {}", self.expr(x))).collect::<String>()),
            Expr::RegexCap(n) => format!("regexcap({})", n),
            Expr::Raw(_) => "#null".into(),
        }
    }
    fn var(&self, v: &VarRef) -> String {
        match v {
            VarRef::Plain { id, name } => format!("var({}){}", name, self.loc(*id)),
            VarRef::Scoped { id, scope, name } => format!("scoped({} . {}){}", self.expr(scope), name, self.loc(*id)),
        }
    }
    fn attrs(&self, a: &[Attr]) -> String {
        a.iter().map(|x| format!("{} = {}", x.name, x.value.as_ref().map(|v| self.expr(v)).unwrap_or_else(|| "#true".into()))).collect::<Vec<_>>().join(", ")
    }
    fn stmts(&self, s: &[Stmt], depth: usize, out: &mut Vec<String>) {
        let pad = "  ".repeat(depth);
        for x in s {
            let at = self.loc(x.id());
            match x {
                Stmt::Let { var, value, .. } => out.push(format!("{}let{} {} = {}", pad, at, self.var(var), self.expr(value))),
                Stmt::Var { var, value, .. } => out.push(format!("{}var{} {} = {}", pad, at, self.var(var), self.expr(value))),
                Stmt::Set { var, value, .. } => out.push(format!("{}set{} {} = {}", pad, at, self.var(var), self.expr(value))),
                Stmt::Node { var, .. } => out.push(format!("{}node{} {}", pad, at, self.var(var))),
                Stmt::Edge { src, dst, .. } => out.push(format!("{}edge{} {} -> {}", pad, at, self.expr(src), self.expr(dst))),
                Stmt::AttrNode { node, attrs, .. } => out.push(format!("{}attr{} ({}) {}", pad, at, self.expr(node), self.attrs(attrs))),
                Stmt::AttrEdge { src, dst, attrs, .. } => out.push(format!("{}attr{} ({} -> {}) {}", pad, at, self.expr(src), self.expr(dst), self.attrs(attrs))),
                Stmt::Print { values, .. } => out.push(format!("{}print{} {}", pad, at, values.iter().map(|v| self.expr(v)).collect::<Vec<_>>().join(", "))),
                Stmt::Scan { value, arms, .. } => {
                    out.push(format!("{}scan{} {}", pad, at, self.expr(value)));
                    for a in arms {
                        // the library records the scan's location for every arm
                        out.push(format!("{}  arm{} /{}/", pad, at, a.regex));
                        self.stmts(&a.body, depth + 2, out);
                    }
                }
                Stmt::If { arms, .. } => {
                    out.push(format!("{}if{}", pad, at));
                    for a in arms {
                        let conds: Vec<String> = a
                            .conds
                            .iter()
                            .map(|c| match c {
                                Cond::Some(id, e) => format!("some{} {}", self.loc(*id), self.expr(e)),
                                Cond::None(id, e) => format!("none{} {}", self.loc(*id), self.expr(e)),
                                Cond::Bool(id, e) => format!("bool{} {}", self.loc(*id), self.expr(e)),
                            })
                            .collect();
                        out.push(format!("{}  arm{} [{}]", pad, self.loc(a.id), conds.join(", ")));
                        self.stmts(&a.body, depth + 2, out);
                    }
                }
                Stmt::For { var_id, var, value, body, .. } => {
                    out.push(format!("{}for{} {}{} in {}", pad, at, var, self.loc(*var_id), self.expr(value)));
                    self.stmts(body, depth + 1, out);
                }
            }
        }
    }
}

/// The parsed side.  `seen` collects (capture name, resolved quantifier).
struct Parsed<'s> {
    seen: &'s mut Vec<(String, CaptureQuantifier)>,
}

impl<'s> Parsed<'s> {
    fn unscoped(&self, v: &ast::UnscopedVariable) -> String {
        format!("var({}){}", v.name, l(&v.location))
    }
    fn expr(&mut self, e: &ast::Expression) -> String {
        match e {
            ast::Expression::NullLiteral => "#null".into(),
            ast::Expression::TrueLiteral => "#true".into(),
            ast::Expression::FalseLiteral => "#false".into(),
            ast::Expression::IntegerConstant(c) => format!("int({})", c.value),
            ast::Expression::StringConstant(c) => format!("str({:?})", c.value),
            ast::Expression::ListLiteral(x) => format!("list[{}]", x.elements.iter().map(|y| self.expr(y)).collect::<Vec<_>>().join(", ")),
            ast::Expression::SetLiteral(x) => format!("set{{{}}}", x.elements.iter().map(|y| self.expr(y)).collect::<Vec<_>>().join(", ")),
            ast::Expression::ListComprehension(c) => {
                let (el, src) = (self.expr(&c.element), self.expr(&c.value));
                format!("listcomp{}[{} for {}{} in {}]", l(&c.location), el, c.variable.name, l(&c.variable.location), src)
            }
            ast::Expression::SetComprehension(c) => {
                let (el, src) = (self.expr(&c.element), self.expr(&c.value));
                format!("setcomp{}[{} for {}{} in {}]", l(&c.location), el, c.variable.name, l(&c.variable.location), src)
            }
            ast::Expression::Capture(c) => {
                self.seen.push((c.name.to_string(), c.quantifier));
                format!("capture(@{}){}", c.name, l(&c.location))
            }
            ast::Expression::Variable(v) => self.var(v),
            ast::Expression::Call(c) => {
                let args: String = c.parameters.iter().map(|x| format!(" {}", self.expr(x))).collect();
                format!("call({}{})", c.function, args)
            }
            ast::Expression::RegexCapture(r) => format!("regexcap({})", r.match_index),
            #[allow(unreachable_patterns)]
            other => format!("unknown-expression({:?})", other),
        }
    }
    fn var(&mut self, v: &ast::Variable) -> String {
        match v {
            ast::Variable::Unscoped(u) => self.unscoped(u),
            ast::Variable::Scoped(sv) => {
                let scope = self.expr(&sv.scope);
                format!("scoped({} . {}){}", scope, sv.name, l(&sv.location))
            }
        }
    }
    fn attrs(&mut self, a: &[ast::Attribute]) -> String {
        a.iter().map(|x| format!("{} = {}", x.name, self.expr(&x.value))).collect::<Vec<_>>().join(", ")
    }
    fn stmts(&mut self, s: &[ast::Statement], depth: usize, out: &mut Vec<String>) {
        let pad = "  ".repeat(depth);
        for x in s {
            match x {
                ast::Statement::DeclareImmutable(d) => {
                    let line = format!("{}let{} {} = {}", pad, l(&d.location), self.var(&d.variable), self.expr(&d.value));
                    out.push(line)
                }
                ast::Statement::DeclareMutable(d) => {
                    let line = format!("{}var{} {} = {}", pad, l(&d.location), self.var(&d.variable), self.expr(&d.value));
                    out.push(line)
                }
                ast::Statement::Assign(d) => {
                    let line = format!("{}set{} {} = {}", pad, l(&d.location), self.var(&d.variable), self.expr(&d.value));
                    out.push(line)
                }
                ast::Statement::CreateGraphNode(d) => {
                    let line = format!("{}node{} {}", pad, l(&d.location), self.var(&d.node));
                    out.push(line)
                }
                ast::Statement::CreateEdge(d) => {
                    let line = format!("{}edge{} {} -> {}", pad, l(&d.location), self.expr(&d.source), self.expr(&d.sink));
                    out.push(line)
                }
                ast::Statement::AddGraphNodeAttribute(d) => {
                    let line = format!("{}attr{} ({}) {}", pad, l(&d.location), self.expr(&d.node), self.attrs(&d.attributes));
                    out.push(line)
                }
                ast::Statement::AddEdgeAttribute(d) => {
                    let line = format!("{}attr{} ({} -> {}) {}", pad, l(&d.location), self.expr(&d.source), self.expr(&d.sink), self.attrs(&d.attributes));
                    out.push(line)
                }
                ast::Statement::Print(d) => {
                    let vals: Vec<String> = d.values.iter().map(|v| self.expr(v)).collect();
                    out.push(format!("{}print{} {}", pad, l(&d.location), vals.join(", ")))
                }
                ast::Statement::Scan(d) => {
                    let line = format!("{}scan{} {}", pad, l(&d.location), self.expr(&d.value));
                    out.push(line);
                    for a in &d.arms {
                        out.push(format!("{}  arm{} /{}/", pad, l(&a.location), a.regex.as_str()));
                        self.stmts(&a.statements, depth + 2, out);
                    }
                }
                ast::Statement::If(d) => {
                    out.push(format!("{}if{}", pad, l(&d.location)));
                    for a in &d.arms {
                        let conds: Vec<String> = a
                            .conditions
                            .iter()
                            .map(|c| match c {
                                ast::Condition::Some { value, location } => format!("some{} {}", l(location), self.expr(value)),
                                ast::Condition::None { value, location } => format!("none{} {}", l(location), self.expr(value)),
                                ast::Condition::Bool { value, location } => format!("bool{} {}", l(location), self.expr(value)),
                            })
                            .collect();
                        out.push(format!("{}  arm{} [{}]", pad, l(&a.location), conds.join(", ")));
                        self.stmts(&a.statements, depth + 2, out);
                    }
                }
                ast::Statement::ForIn(d) => {
                    let line = format!("{}for{} {}{} in {}", pad, l(&d.location), d.variable.name, l(&d.variable.location), self.expr(&d.value));
                    out.push(line);
                    self.stmts(&d.statements, depth + 1, out);
                }
                #[allow(unreachable_patterns)]
                other => out.push(format!("{}unknown-statement({:?})", pad, other)),
            }
        }
    }
}

fn quant(q: Quant) -> CaptureQuantifier {
    match q {
        Quant::One => CaptureQuantifier::One,
        Quant::Opt => CaptureQuantifier::ZeroOrOne,
        Quant::Star => CaptureQuantifier::ZeroOrMore,
        Quant::Plus => CaptureQuantifier::OneOrMore,
    }
}

fn first_line_difference(parsed: &[String], written: &[String]) -> String {
    for (i, (p, w)) in parsed.iter().zip(written.iter()).enumerate() {
        if p != w {
            return format!("line {}:\nparsed   {}\nwritten  {}", i + 1, p, w);
        }
    }
    format!("{} lines parsed, {} written; first extra: {:?}", parsed.len(), written.len(), parsed.get(written.len()).or(written.get(parsed.len())))
}

fn compare(file: &mut ast::File, prog: &GProg, printed: &Printed, checked: bool) -> Result<(), (String, String)> {
    let w = Written { locs: &printed.locs };
    // globals
    let want_globals: Vec<String> = prog
        .items
        .iter()
        .filter_map(|i| match i {
            Item::Global { id, name, quant: q, default } => Some(format!("global {} {:?} {:?} {}", name, quant(*q), default, w.loc(*id))),
            _ => None,
        })
        .collect();
    let got_globals: Vec<String> = file.globals.iter().map(|g| format!("global {} {:?} {:?} {}", g.name, g.quantifier, g.default, l(&g.location))).collect();
    if got_globals != want_globals {
        return Err(("globals".into(), first_line_difference(&got_globals, &want_globals)));
    }
    let want_inherit: BTreeSet<String> = prog.inherited().iter().map(|n| n.to_string()).collect();
    let got_inherit: BTreeSet<String> = file.inherited_variables.iter().map(|n| n.to_string()).collect();
    if got_inherit != want_inherit {
        return Err(("inherit".into(), format!("parsed {:?}\nwritten {:?}", got_inherit, want_inherit)));
    }
    // shorthands (by name; a later one with the same name replaces the earlier)
    let mut want_sh: std::collections::BTreeMap<String, String> = Default::default();
    for i in &prog.items {
        if let Item::Shorthand { id, name, var_id, var, attrs } = i {
            want_sh.insert(name.clone(), format!("shorthand {}{} {}{} => {}", name, w.loc(*id), var, w.loc(*var_id), w.attrs(attrs)));
        }
    }
    let mut sink = vec![];
    let mut got_sh: std::collections::BTreeMap<String, String> = Default::default();
    for sh in file.shorthands.iter() {
        let mut p = Parsed { seen: &mut sink };
        got_sh.insert(sh.name.to_string(), format!("shorthand {}{} {}{} => {}", sh.name, l(&sh.location), sh.variable.name, l(&sh.variable.location), p.attrs(&sh.attributes)));
    }
    if got_sh != want_sh {
        let (g, wv): (Vec<String>, Vec<String>) = (got_sh.values().cloned().collect(), want_sh.values().cloned().collect());
        return Err(("shorthands".into(), first_line_difference(&g, &wv)));
    }
    // stanzas
    let stanzas: Vec<&Stanza> = prog.stanzas().collect();
    if file.stanzas.len() != stanzas.len() {
        return Err(("stanza-count".into(), format!("{} stanzas parsed, {} written", file.stanzas.len(), stanzas.len())));
    }
    for (parsed, written) in file.stanzas.iter().zip(stanzas.iter()) {
        let start = printed.locs[&written.id];
        let end = printed.stanza_end[&written.id];
        if (parsed.range.start.row, parsed.range.start.column) != (start.row, start.col) {
            return Err(("stanza-start".into(), format!("stanza start parsed ({}, {}), written ({}, {})", parsed.range.start.row, parsed.range.start.column, start.row, start.col)));
        }
        if (parsed.range.end.row, parsed.range.end.column) != (end.row, end.col) {
            return Err(("stanza-end".into(), format!("stanza end parsed ({}, {}), written ({}, {})", parsed.range.end.row, parsed.range.end.column, end.row, end.col)));
        }
        let mut seen = vec![];
        let mut got = vec![];
        Parsed { seen: &mut seen }.stmts(&parsed.statements, 0, &mut got);
        if checked {
            for (name, q) in seen {
                if let Some(c) = written.captures.iter().find(|c| c.name == name) {
                    if q != quant(c.quant) {
                        return Err(("capture-quantifier".into(), format!("capture @{} resolved with quantifier {:?}, the query gives {:?}", name, q, c.quant)));
                    }
                }
            }
        }
        let mut want = vec![];
        w.stmts(&written.body, 0, &mut want);
        if got != want {
            return Err(("statements".into(), first_line_difference(&got, &want)));
        }
    }
    Ok(())
}

pub fn case(tape: &[u32]) -> CaseOutcome {
    let (aux, main) = split_tape(tape);
    let mut t = Tape::new(&aux);
    let mut gt = Tape::new(&main);
    let checked = t.chance(1, 3);
    let (prog, kinds, kw) = if checked {
        let mut cfg = GenCfg::full();
        cfg.gnode_text = true;
        let g = crate::gen::generate(&mut gt, &cfg);
        let mut kinds = BTreeSet::new();
        for s in g.prog.stanzas() {
            walk_stmts(&s.body, 0, &mut |st, _| {
                kinds.insert(st.kind());
            });
        }
        (g.prog, kinds.len(), 1)
    } else {
        gen_free(&mut gt)
    };
    let mut printed = print_random(&prog, &mut t);
    // a third of the texts end with their last token: no blank, line break or comment after it
    if t.chance(1, 3) {
        let plain_end = !printed.text.trim_end().lines().last().map(|l| l.contains(';')).unwrap_or(false);
        if plain_end {
            let n = printed.text.trim_end().len();
            printed.text.truncate(n);
        }
    }
    let text = &printed.text;
    let d = |extra: serde_json::Value| json!({"dsl": text, "checked": checked, "more": extra});
    #[allow(deprecated)]
    let parsed = call_lib(|| {
        if checked {
            ast::File::from_str(pysrc::lang(), text)
        } else {
            let mut f = ast::File::new(pysrc::lang());
            f.parse(text).map(|_| f)
        }
    });
    let mut file = match parsed {
        Err(p) => return CaseOutcome::Fail(Failure::new(format!("C07:{}", p.signature()), p.message, d(json!({})))),
        Ok(Err(e)) => {
            return CaseOutcome::Fail(Failure::new(
                format!("C07:rejected:{}", format!("{:?}", e).split('(').next().unwrap_or("")),
                format!("a syntactically valid text was rejected: {}", e),
                d(json!({"pretty": format!("{}", e.display_pretty(std::path::Path::new("t.tsg"), text))})),
            ));
        }
        Ok(Ok(f)) => f,
    };
    if let Err((what, why)) = compare(&mut file, &prog, &printed, checked) {
        return CaseOutcome::Fail(Failure::new(format!("C07:ast-differs:{}", what), format!("the parsed AST differs from the written program ({}):\n{}", what, why), d(json!({}))));
    }
    let mut labels = vec![if checked { "checked-program".to_string() } else { "free-form-program".to_string() }];
    if printed.comments > 0 {
        labels.push("comments".into());
    }
    if printed.multiline_queries > 0 {
        labels.push("multi-line-query".into());
    }
    if printed.after_multibyte > 0 {
        labels.push("location-after-multibyte".into());
    }
    if kw > 0 {
        labels.push("keyword-prefixed-identifier".into());
    }
    CaseOutcome::Pass(CaseReport {
        fingerprint: fingerprint(text),
        nontrivial: kinds >= 3 && (printed.comments > 0 || printed.multiline_queries > 0) && (printed.after_multibyte > 0 || kw > 0),
        labels,
        counters: vec![],
        sample: Some(json!({"dsl": text})),
        evaluations: 1,
    })
}

pub fn spec(tier: &str) -> Spec {
    let mut s = Spec::new("C07", tier, 8_000, 150_000, 1800);
    s.rule = "two thirds free-form programs over every statement and expression form (nesting to depth 5, identifiers that begin with keywords or contain non-ASCII letters, strings with every escape and multi-byte characters, integers up to u32::MAX with leading zeros, regex literals, multi-line queries with comments / braces inside strings) parsed with the parse-only entry (File::new + parse), one third checker-valid generated programs parsed with File::from_str; all printed with a random layout (runs of spaces / tabs / newlines / `;` comments with multi-byte text wherever a separator is allowed, raw or escaped newlines and tabs and unnecessary escapes inside strings, optional trailing commas). Oracle: globals, inherit names, shorthands and every stanza's statement list, rendered into canonical lines by reading the parsed AST's fields, must equal the same rendering of the written program with the printer's own record of locations, incl. every Location (stanza start and end, statement keyword, unscoped variable, scoped-variable name token, capture, condition, if/elif/else arm, comprehension bracket); after from_str the resolved capture quantifier must be the query's. Non-trivial: >=3 statement kinds, >=1 comment or multi-line query, and a located construct after a multi-byte character on its line or a keyword-prefixed identifier. Distinct = fingerprint of the text.".into();
    s.assumptions = vec![
        "a bare `global name` is followed by a plain whitespace character (comments directly after the name are excluded, DESIGN §4)".into(),
        "scoped-variable locations are those of the name token after the dot (pinned by tests/it/parser.rs)".into(),
    ];
    s
}

pub fn run_check(tier: &str) -> i32 {
    let started = std::time::Instant::now();
    let spec = spec(tier);
    let result = run_tapes(&spec, case);
    finish(&spec, result, started)
}
