//! C02 — strict and lazy evaluation agree on every order-insensitive program (differential).

use super::common::*;
use crate::engine::*;
use crate::gen::GenCfg;
use crate::lib_api::*;
use crate::pysrc;
use crate::tree::TreeIndex;
use serde_json::json;

const ORDER_INDEPENDENT: &[&str] = &[
    "ExpectedGraphNode",
    "ExpectedList",
    "ExpectedBoolean",
    "ExpectedInteger",
    "ExpectedString",
    "ExpectedSyntaxNode",
    "InvalidVariableScope",
    "DuplicateAttribute",
    "DuplicateVariable",
    "FunctionFailed",
    "UndefinedFunction",
    "InvalidParameters",
    "UndefinedRegexCapture",
    "MissingGlobalVariable",
];

pub fn case(tape: &[u32]) -> CaseOutcome {
    let (aux, main) = split_tape(tape);
    let mut a = Tape::new(&aux);
    let mut t = Tape::new(&main);
    if a.chance(1, 12) {
        // scoped variables that refer to each other, possibly in a cycle: the modes may disagree
        // on what they report (strict reads before the definition exists), neither may panic
        let dsl = super::c05::reference_cycles(&mut t);
        let file = match load(&dsl) {
            Err(p) => return CaseOutcome::Fail(Failure::new(format!("C02:load-{}", p.signature()), p.message, json!({"dsl": dsl}))),
            Ok(Err(_)) => return CaseOutcome::Discard("generated program rejected by the loader"),
            Ok(Ok(f)) => f,
        };
        let sources = pick_sources(&mut a, 1);
        let mut labels = vec!["reference-cycles".to_string()];
        for source in &sources {
            let tree = pysrc::parse(source);
            let index = TreeIndex::new(&tree);
            let mut classes = vec![];
            for lazy in [false, true] {
                let (r, _) = run(&file, &tree, &index, source, &Default::default(), &ExecOpts { lazy, debug: None });
                match r {
                    LibRun::Panic(p) => {
                        return CaseOutcome::Fail(Failure::new(format!("C02:{}:{}", if lazy { "lazy" } else { "strict" }, p.signature()), format!("{} execution panicked: {}", if lazy { "lazy" } else { "strict" }, p.message), json!({"dsl": dsl, "source": source})));
                    }
                    LibRun::Err(e) => classes.push(variant_name(root_cause(&e)).to_string()),
                    LibRun::Ok(_) => classes.push("ok".to_string()),
                    _ => classes.push("other".to_string()),
                }
            }
            labels.push(format!("cycles:strict={}:lazy={}", classes[0], classes[1]));
        }
        let mut report = CaseReport::default();
        report.evaluations = 2 * sources.len() as u64;
        report.fingerprint = fingerprint(&(&dsl, &sources));
        report.nontrivial = labels.iter().any(|l| l.contains("RecursivelyDefined"));
        report.labels = labels;
        report.sample = Some(json!({"dsl": dsl, "sources": sources}));
        return CaseOutcome::Pass(report);
    }
    let mut cfg = GenCfg::fragment();
    cfg.fault = a.chance(1, 4);
    cfg.scoped_heavy = a.chance(1, 2);
    let sources = pick_sources(&mut a, 2);
    let use_scenario = a.chance(1, 6);
    let mut program = if use_scenario {
        // inheritance scenarios (several defining ancestors, links, list elements), immutable only
        let (prog, mut features) = super::c04::scenario(&mut t, false, 30);
        features.insert("scenario");
        let printed = crate::dsl::print_canonical(&prog);
        Program { gen: crate::gen::Generated { prog, globals: Default::default(), features, fault: None, fault_id: None, fault_pair: None }, printed }
    } else {
        make_program(&mut t, &cfg)
    };
    // sometimes the caller supplies a variable the file does not declare, named like one of the
    // file's locals: whatever strict mode makes of that, lazy mode has to agree
    if a.chance(1, 8) {
        let mut names: Vec<String> = vec![];
        for st in program.gen.prog.stanzas() {
            crate::dsl::walk_stmts(&st.body, 0, &mut |s, _| match s {
                crate::dsl::Stmt::Let { var: crate::dsl::VarRef::Plain { name, .. }, .. } | crate::dsl::Stmt::Var { var: crate::dsl::VarRef::Plain { name, .. }, .. } | crate::dsl::Stmt::Node { var: crate::dsl::VarRef::Plain { name, .. }, .. } => names.push(name.clone()),
                crate::dsl::Stmt::For { var, .. } => names.push(var.clone()),
                _ => {}
            });
        }
        for it in &program.gen.prog.items {
            if let crate::dsl::Item::Shorthand { var, .. } = it {
                names.push(var.clone());
            }
        }
        if !names.is_empty() {
            let n = names[a.choose(names.len())].clone();
            if !program.gen.globals.contains_key(&n) {
                program.gen.globals.insert(n, crate::cval::CVal::Str("supplied".into()));
                program.gen.features.insert("undeclared-variable-supplied");
            }
        }
    }
    let dsl = &program.printed.text;
    let file = match load_valid("C02", dsl) {
        Ok(f) => f,
        Err(o) => return o,
    };
    let mut report = CaseReport::default();
    report.evaluations = 0;
    let mut labels: Vec<String> = vec![];
    let mut nontrivial = false;
    for source in &sources {
        let tree = pysrc::parse(source);
        let index = TreeIndex::new(&tree);
        let d = |extra| detail(dsl, source, &program.gen.globals, extra);
        let model = model_run(&program.gen.prog, &tree, &index, source, &program.gen.globals, Default::default());
        // the comparison of the two modes does not need the reference run: where that run is
        // inconclusive (e.g. a scan arm with a `\b` assertion that matches the empty string
        // without being selected) only its poll bound is replaced by the fixed one
        let cap = match &model.outcome {
            crate::interp::Outcome::Inconclusive(why) => {
                report.counters.push((format!("reference-inconclusive:{}", why.split(':').next().unwrap_or("")), 1));
                POLL_CAP
            }
            _ => model.poll_cap(),
        };
        let (strict, _) = run_capped(&file, &tree, &index, source, &program.gen.globals, &ExecOpts { lazy: false, debug: None }, cap);
        let (lazy, _) = run_capped(&file, &tree, &index, source, &program.gen.globals, &ExecOpts { lazy: true, debug: None }, cap);
        report.evaluations += 2;
        for (mode, r) in [("strict", &strict), ("lazy", &lazy)] {
            match r {
                LibRun::Panic(p) => {
                    return CaseOutcome::Fail(Failure::new(format!("C02:{}:{}", mode, p.signature()), format!("{} execution panicked: {}", mode, p.message), d(json!({}))));
                }
                LibRun::PollBound(_) if !matches!(model.outcome, crate::interp::Outcome::Ok) => {
                    report.counters.push(("inconclusive:poll-bound-next-to-failing-reference-run".into(), 1));
                }
                LibRun::PollBound(n) => {
                    return CaseOutcome::Fail(Failure::new(format!("C02:{}:poll-bound", mode), format!("{} execution polled {} times without finishing", mode, n), d(json!({}))));
                }
                LibRun::BadGraph(w) => {
                    return CaseOutcome::Fail(Failure::new(format!("C02:{}:bad-graph", mode), format!("{} result graph is inconsistent: {}", mode, w), d(json!({}))));
                }
                _ => {}
            }
        }
        match (&strict, &lazy) {
            (LibRun::Ok(gs), LibRun::Ok(gl)) => {
                match compare_graphs(gs, gl, 0) {
                    Cmp::Same => labels.push("both-ok".into()),
                    Cmp::Inconclusive => report.counters.push(("inconclusive:isomorphism-budget".into(), 1)),
                    Cmp::Different(why) => {
                        return CaseOutcome::Fail(Failure::new(
                            "C02:graphs-differ",
                            format!("strict and lazy graphs are not isomorphic: {}", why),
                            d(json!({"strict_graph": gs.to_json(), "lazy_graph": gl.to_json()})),
                        ));
                    }
                }
                // labels / non-triviality from the reference interpreter's trace
                let tr = &model.trace;
                let uses = tr.scoped_cross_reads > 0 || tr.arm_runs > 0 || tr.loop_iterations > 0 || tr.shorthand_expansions > 0 || (program.gen.features.contains("mutable-local") && tr.statements > 3);
                if gs.nodes.len() >= 2 && (gs.edge_count() >= 1 || gs.attr_count() >= 1) && uses {
                    nontrivial = true;
                }
                if tr.scoped_cross_reads > 0 {
                    labels.push("cross-stanza-scoped-read".into());
                }
                if tr.scoped_inherited_reads > 0 {
                    labels.push("inherited-read".into());
                }
                if tr.arm_runs > 0 {
                    labels.push("scan-arm".into());
                }
                if tr.shorthand_expansions > 0 {
                    labels.push("shorthand".into());
                }
            }
            (LibRun::Ok(gs), LibRun::Err(e)) => {
                return CaseOutcome::Fail(Failure::new(
                    format!("C02:lazy-fails:{}", variant_name(root_cause(e))),
                    format!("strict execution succeeded ({}), lazy execution failed: {}", gs.summary(), e),
                    d(json!({"strict_graph": gs.to_json()})),
                ));
            }
            (LibRun::Err(es), LibRun::Ok(gl)) => {
                let v = variant_name(root_cause(es));
                if ORDER_INDEPENDENT.contains(&v) {
                    return CaseOutcome::Fail(Failure::new(
                        format!("C02:lazy-succeeds:{}", v),
                        format!("strict execution failed for an order-independent reason ({}), lazy execution succeeded ({})", es, gl.summary()),
                        d(json!({"lazy_graph": gl.to_json()})),
                    ));
                }
                labels.push(format!("strict-err-order-dependent:{}", v));
            }
            (LibRun::Err(es), LibRun::Err(_)) => {
                labels.push(format!("both-err:{}", variant_name(root_cause(es))));
            }
            _ => {}
        }
    }
    if let Some(f) = program.gen.fault {
        labels.push(format!("fault:{}", f));
    }
    labels.sort();
    labels.dedup();
    report.fingerprint = fingerprint(&(dsl, &sources));
    report.nontrivial = nontrivial;
    report.labels = labels;
    report.sample = Some(json!({"dsl": dsl, "sources": sources, "globals": globals_json(&program.gen.globals)}));
    CaseOutcome::Pass(report)
}

pub fn spec(tier: &str) -> Spec {
    let mut s = Spec::new("C02", tier, 4_000, 60_000, 1200);
    s.rule = "programs generated inside the order-insensitive fragment (no var/set on scoped variables; inherited names defined in stanzas that precede their readers; scoped definitions scoped by captures only; graph nodes never rendered to text), a quarter with one injected run-time fault; each executed strict and lazy on 1-2 trees. Oracle: strict Ok => lazy Ok with isomorphic graphs; strict Err with an order-independent root cause => lazy Err; no panic in either mode. Non-trivial: strict produced >=2 nodes and >=1 edge/attribute and the run executed a cross-stanza scoped read, scan arm, loop/comprehension iteration, shorthand expansion or mutable local. Distinct = fingerprint of (DSL text, sources).".into();
    s.assumptions = vec!["the fragment is enforced by the generator (harness/src/gen.rs, cfg.fragment)".into()];
    s
}

pub fn run_check(tier: &str) -> i32 {
    let started = std::time::Instant::now();
    let spec = spec(tier);
    let result = run_tapes(&spec, case);
    finish(&spec, result, started)
}
