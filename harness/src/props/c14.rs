//! C14 — JSON and pretty-printed output encode the graph faithfully and completely (round trip).

use super::common::*;
use crate::cval::{debug as cdebug, observe, CVal, MGraph, MNode};
use crate::engine::*;
use crate::gen::GenCfg;
use crate::lib_api::{to_value, CountingFlag, ExecOpts, ExecOutcome};
use crate::pysrc;
use crate::rawjson::{self, Raw};
use crate::tree::TreeIndex;
use serde_json::json;
use std::collections::{BTreeMap, BTreeSet, HashMap};
use tree_sitter_graph::graph::Graph;
use tree_sitter_graph::Identifier;

const STRS: &[&str] = &["", "a", "plain text", "\"quoted\"", "back\\slash", "line\nbreak", "tab\there", "\u{0}", "\u{1f}", "é", "日本語", "😀", "\u{7f}", "</script>", "{\"type\":\"int\"}", "\r\n", "'"];
const IDENT_NAMES: &[&str] = &["a", "b", "kind", "name", "x-y", "_z", "idx", "text2", "Z"];
const ODD_NAMES: &[&str] = &["", "with space", "quo\"te", "é", "type", "id", "a\nb", "😀"];

fn gen_val(t: &mut Tape, nsyn: usize, ngraph: usize, depth: usize, allow_syn: bool) -> CVal {
    let k = if depth >= 3 { t.weighted(&[1, 1, 2, 3, 0, 0, if allow_syn { 1 } else { 0 }, 1]) } else { t.weighted(&[1, 1, 2, 3, 2, 2, if allow_syn { 1 } else { 0 }, 1]) };
    match k {
        0 => CVal::Null,
        1 => CVal::Bool(t.chance(1, 2)),
        2 => CVal::Int(*t.pick(&[0u32, 1, 42, 65536, 4294967295])),
        3 => CVal::Str(t.pick(STRS).to_string()),
        4 => {
            let n = t.choose(4);
            CVal::List((0..n).map(|_| gen_val(t, nsyn, ngraph, depth + 1, allow_syn)).collect())
        }
        5 => {
            // at most one syntax node per set (anywhere inside it): the order of several is
            // address-dependent in the implementation and would make the pretty form unpredictable
            let n = t.choose(4);
            let mut out = BTreeSet::new();
            let mut syn_left = allow_syn;
            for _ in 0..n {
                let v = gen_val(t, nsyn, ngraph, depth + 1, syn_left);
                if v.has_syn() {
                    syn_left = false;
                }
                out.insert(v);
            }
            CVal::Set(out)
        }
        6 => CVal::Syn(t.choose(nsyn.max(1))),
        _ => {
            if ngraph == 0 {
                CVal::Int(3)
            } else {
                CVal::GNode(t.choose(ngraph))
            }
        }
    }
}

/// Decode one tagged value.
fn decode_value(raw: &Raw, syn_by_id: &HashMap<u32, usize>, path: &str) -> Result<CVal, String> {
    let keys = raw.keys();
    let ty = raw.get("type").and_then(|t| t.as_str()).ok_or_else(|| format!("{}: value without a string `type`", path))?;
    let expect_keys = |want: &[&str]| -> Result<(), String> {
        if keys == want {
            Ok(())
        } else {
            Err(format!("{}: value of type {} has keys {:?}, expected {:?}", path, ty, keys, want))
        }
    };
    match ty {
        "null" => {
            expect_keys(&["type"])?;
            Ok(CVal::Null)
        }
        "bool" => {
            expect_keys(&["type", "bool"])?;
            match raw.get("bool") {
                Some(Raw::Bool(b)) => Ok(CVal::Bool(*b)),
                other => Err(format!("{}: bool payload is {:?}", path, other)),
            }
        }
        "int" => {
            expect_keys(&["type", "int"])?;
            let n = raw.get("int").and_then(|n| n.as_u64()).ok_or_else(|| format!("{}: int payload is not an unsigned number", path))?;
            if n > u32::MAX as u64 {
                return Err(format!("{}: int {} out of range", path, n));
            }
            Ok(CVal::Int(n as u32))
        }
        "string" => {
            expect_keys(&["type", "string"])?;
            Ok(CVal::Str(raw.get("string").and_then(|s| s.as_str()).ok_or_else(|| format!("{}: string payload missing", path))?.to_string()))
        }
        "list" | "set" => {
            expect_keys(&["type", "values"])?;
            let items = match raw.get("values") {
                Some(Raw::Arr(xs)) => xs,
                other => return Err(format!("{}: values payload is {:?}", path, other)),
            };
            let mut out = vec![];
            for (i, x) in items.iter().enumerate() {
                out.push(decode_value(x, syn_by_id, &format!("{}[{}]", path, i))?);
            }
            if ty == "list" {
                Ok(CVal::List(out))
            } else {
                let n = out.len();
                let set: BTreeSet<CVal> = out.into_iter().collect();
                if set.len() != n {
                    return Err(format!("{}: set serialised with duplicate elements", path));
                }
                Ok(CVal::Set(set))
            }
        }
        "syntaxNode" => {
            expect_keys(&["type", "id"])?;
            let id = raw.get("id").and_then(|n| n.as_u64()).ok_or_else(|| format!("{}: syntaxNode id missing", path))?;
            match syn_by_id.get(&(id as u32)) {
                Some(p) => Ok(CVal::Syn(*p)),
                None => Err(format!("{}: syntaxNode id {} is not the id of any node of the tree", path, id)),
            }
        }
        "graphNode" => {
            expect_keys(&["type", "id"])?;
            let id = raw.get("id").and_then(|n| n.as_u64()).ok_or_else(|| format!("{}: graphNode id missing", path))?;
            Ok(CVal::GNode(id as usize))
        }
        other => Err(format!("{}: unknown type tag {}", path, other)),
    }
}

fn decode_attrs(raw: &Raw, syn_by_id: &HashMap<u32, usize>, path: &str) -> Result<BTreeMap<String, CVal>, String> {
    let kv = match raw {
        Raw::Obj(kv) => kv,
        other => return Err(format!("{}: attrs is {:?}", path, other)),
    };
    let mut out = BTreeMap::new();
    for (k, v) in kv {
        if out.insert(k.clone(), decode_value(v, syn_by_id, &format!("{}.{}", path, k))?).is_some() {
            return Err(format!("{}: attribute {:?} listed twice", path, k));
        }
    }
    Ok(out)
}

pub fn decode_graph(raw: &Raw, syn_by_id: &HashMap<u32, usize>) -> Result<MGraph, String> {
    let nodes = match raw {
        Raw::Arr(xs) => xs,
        _ => return Err("top level is not an array".into()),
    };
    let mut out = MGraph::default();
    for (i, n) in nodes.iter().enumerate() {
        if n.keys() != ["id", "edges", "attrs"] {
            return Err(format!("node {} has keys {:?}", i, n.keys()));
        }
        if n.get("id").and_then(|x| x.as_u64()) != Some(i as u64) {
            return Err(format!("node at position {} has id {:?}", i, n.get("id")));
        }
        let mut m = MNode::default();
        m.attrs = decode_attrs(n.get("attrs").unwrap(), syn_by_id, &format!("node {}", i))?;
        let edges = match n.get("edges") {
            Some(Raw::Arr(es)) => es,
            other => return Err(format!("node {} edges is {:?}", i, other)),
        };
        let mut last: Option<u64> = None;
        for e in edges {
            if e.keys() != ["sink", "attrs"] {
                return Err(format!("edge of node {} has keys {:?}", i, e.keys()));
            }
            let sink = e.get("sink").and_then(|x| x.as_u64()).ok_or_else(|| format!("edge of node {} without sink", i))?;
            if let Some(l) = last {
                if sink <= l {
                    return Err(format!("edges of node {} are not in strictly ascending sink order ({} after {})", i, sink, l));
                }
            }
            last = Some(sink);
            m.edges.insert(sink as usize, decode_attrs(e.get("attrs").unwrap(), syn_by_id, &format!("edge {}->{}", i, sink))?);
        }
        out.nodes.push(m);
    }
    Ok(out)
}

/// The harness's own pretty rendering of an observed graph.
pub fn render_pretty(g: &MGraph, index: &TreeIndex) -> String {
    let mut out = String::new();
    let attrs = |a: &BTreeMap<String, CVal>, out: &mut String| {
        // BTreeMap iterates in byte order of the names, as the library's sort does
        for (k, v) in a {
            out.push_str(&format!("  {}: {}\n", k, cdebug(v, index)));
        }
    };
    for (i, n) in g.nodes.iter().enumerate() {
        out.push_str(&format!("node {}\n", i));
        attrs(&n.attrs, &mut out);
        for (s, a) in &n.edges {
            out.push_str(&format!("edge {} -> {}\n", i, s));
            attrs(a, &mut out);
        }
    }
    out
}

fn check_graph(graph: &Graph, index: &TreeIndex, write_file: bool, what: &str, extra: serde_json::Value) -> Result<(MGraph, bool), Failure> {
    let fail = |sig: &str, msg: String, more: serde_json::Value| Failure::new(format!("C14:{}", sig), msg, json!({"graph_origin": what, "inputs": extra, "more": more}));
    let obs = observe(graph, index).map_err(|e| fail("api-inconsistent", e, json!({})))?;
    let mut syn_by_id: HashMap<u32, usize> = HashMap::new();
    for (pre, n) in index.ts_nodes.iter().enumerate() {
        syn_by_id.entry(n.id() as u32).or_insert(pre);
    }
    let text = match call_lib(|| serde_json::to_string(graph)) {
        Err(p) => return Err(fail(&p.signature(), format!("serialisation panicked: {}", p.message), json!({}))),
        Ok(Err(e)) => return Err(fail("serialise-error", format!("serde_json::to_string failed: {}", e), json!({}))),
        Ok(Ok(t)) => t,
    };
    let raw = rawjson::parse(&text).map_err(|e| fail("invalid-json", format!("output is not valid JSON: {}", e), json!({"json": text})))?;
    if serde_json::from_str::<serde_json::Value>(&text).is_err() {
        return Err(fail("invalid-json", "serde_json cannot parse the output".into(), json!({"json": text})));
    }
    let decoded = decode_graph(&raw, &syn_by_id).map_err(|e| fail("bad-structure", e, json!({"json": text})))?;
    if decoded != obs {
        let first = (0..obs.nodes.len().max(decoded.nodes.len())).find(|i| obs.nodes.get(*i) != decoded.nodes.get(*i));
        return Err(fail(
            "json-differs",
            format!("decoding the JSON does not reconstruct the graph the API reports (first difference at node {:?})", first),
            json!({"json": text, "api": obs.to_json(), "decoded": decoded.to_json()}),
        ));
    }
    let mut wrote = false;
    if write_file {
        let stale_file = graph.node_count() % 2 == 1;
        let dir = out_root().join(".work").join("c14");
        let _ = std::fs::create_dir_all(&dir);
        let path = dir.join(format!("{}-{:?}.json", std::process::id(), std::thread::current().id()).replace(['(', ')'], ""));
        // every other time the file exists already, longer than anything written here
        if stale_file {
            let _ = std::fs::write(&path, "stale-".repeat(60_000));
        }
        match call_lib(|| graph.display_json(Some(&path))) {
            Err(p) => return Err(fail(&p.signature(), format!("display_json panicked: {}", p.message), json!({}))),
            Ok(Err(e)) => return Err(fail("display-json-io", format!("display_json failed: {}", e), json!({}))),
            Ok(Ok(())) => {}
        }
        let file_text = std::fs::read_to_string(&path).unwrap_or_default();
        let _ = std::fs::remove_file(&path);
        let file_raw = rawjson::parse(&file_text).map_err(|e| fail("invalid-json-file", format!("display_json wrote invalid JSON: {}", e), json!({"json": file_text})))?;
        let file_decoded = decode_graph(&file_raw, &syn_by_id).map_err(|e| fail("bad-structure-file", e, json!({"json": file_text})))?;
        if file_decoded != obs {
            return Err(fail("json-file-differs", "the file written by display_json does not decode to the graph".into(), json!({"json": file_text})));
        }
        wrote = true;
    }
    // pretty form, only when every attribute name is a DSL identifier
    let ident = |s: &str| {
        let mut cs = s.chars();
        matches!(cs.next(), Some(c) if c == '_' || c.is_ascii_alphabetic()) && cs.all(|c| c == '_' || c == '-' || c.is_ascii_alphanumeric())
    };
    let all_ident = obs.nodes.iter().all(|n| n.attrs.keys().all(|k| ident(k)) && n.edges.values().all(|a| a.keys().all(|k| ident(k))));
    // a set holding two or more elements with syntax nodes prints them in address order
    fn ambiguous(v: &CVal) -> bool {
        match v {
            CVal::Set(xs) => xs.iter().filter(|x| x.has_syn()).count() >= 2 || xs.iter().any(ambiguous),
            CVal::List(xs) => xs.iter().any(ambiguous),
            _ => false,
        }
    }
    let any_ambiguous = obs.nodes.iter().any(|n| n.attrs.values().any(ambiguous) || n.edges.values().any(|a| a.values().any(ambiguous)));
    if all_ident && !any_ambiguous {
        let pretty = match call_lib(|| graph.pretty_print().to_string()) {
            Err(p) => return Err(fail(&p.signature(), format!("pretty_print panicked: {}", p.message), json!({}))),
            Ok(s) => s,
        };
        let expected = render_pretty(&obs, index);
        if pretty != expected {
            return Err(fail("pretty-differs", "pretty_print differs from the rendering of what the API reports".into(), json!({"pretty_print": pretty, "expected": expected})));
        }
    }
    Ok((obs, wrote))
}

pub fn case(tape: &[u32]) -> CaseOutcome {
    let mut t = Tape::new(tape);
    let from_program = t.chance(1, 4);
    let mut report = CaseReport::default();
    if from_program {
        let mut cfg = GenCfg::full();
        cfg.gnode_text = true;
        let source = pysrc::gen_source(&mut t);
        let lazy = t.chance(1, 2);
        let program = make_program(&mut t, &cfg);
        let file = match load_valid("C14", &program.printed.text) {
            Ok(f) => f,
            Err(o) => return o,
        };
        let tree = pysrc::parse(&source);
        let index = TreeIndex::new(&tree);
        let mut graph = Graph::new();
        let flag = CountingFlag::new(None);
        match crate::lib_api::execute_into(&file, &mut graph, &tree, &index, &source, &program.gen.globals, &ExecOpts { lazy, debug: None }, &flag) {
            ExecOutcome::Ok => {}
            _ => return CaseOutcome::Discard("generated program did not execute successfully"),
        }
        let inputs = json!({"dsl": program.printed.text, "source": source, "lazy": lazy});
        match check_graph(&graph, &index, false, "executed program", inputs.clone()) {
            Err(f) => CaseOutcome::Fail(f),
            Ok((obs, _)) => {
                report.fingerprint = fingerprint(&(&program.printed.text, &source));
                report.nontrivial = obs.edge_count() >= 1 && obs.attr_count() >= 1;
                report.labels = vec!["from-program".into()];
                report.sample = Some(json!({"origin": "executed program", "graph": obs.summary(), "inputs": inputs}));
                CaseOutcome::Pass(report)
            }
        }
    } else {
        let source = pysrc::CORPUS[t.choose(pysrc::CORPUS.len())];
        let tree = pysrc::parse(source);
        let index = TreeIndex::new(&tree);
        let nsyn = index.len();
        let mut graph = Graph::new();
        let n = t.choose(41);
        let odd_names = t.chance(1, 3);
        let mut ops: Vec<String> = vec![];
        for _ in 0..n {
            graph.add_graph_node();
        }
        let refs: Vec<_> = graph.iter_nodes().collect();
        let mut has_escape = false;
        let mut has_nested = false;
        let name_of = |t: &mut Tape| -> String {
            if odd_names && t.chance(1, 3) {
                t.pick(ODD_NAMES).to_string()
            } else {
                t.pick(IDENT_NAMES).to_string()
            }
        };
        for i in 0..n {
            for _ in 0..t.choose(4) {
                let name = name_of(&mut t);
                let v = gen_val(&mut t, nsyn, n, 0, true);
                has_nested |= matches!(&v, CVal::List(xs) if !xs.is_empty()) || matches!(&v, CVal::Set(xs) if !xs.is_empty());
                has_escape |= format!("{:?}", v).contains('\\');
                let value = to_value(&v, &mut graph, &index);
                ops.push(format!("node {} attr {:?} = {:?}", i, name, v));
                let _ = graph[refs[i]].attributes.add(Identifier::from(name.as_str()), value);
            }
            let nedges = if t.chance(1, 5) { 9 + t.choose(6) } else { t.choose(4) };
            for _ in 0..nedges {
                let sink = t.choose(n);
                ops.push(format!("edge {} -> {}", i, sink));
                let _ = graph[refs[i]].add_edge(refs[sink]);
                for _ in 0..t.choose(3) {
                    let name = name_of(&mut t);
                    let v = gen_val(&mut t, nsyn, n, 1, true);
                    has_escape |= format!("{:?}", v).contains('\\');
                    let value = to_value(&v, &mut graph, &index);
                    ops.push(format!("edge {} -> {} attr {:?} = {:?}", i, sink, name, v));
                    if let Some(e) = graph[refs[i]].get_edge_mut(refs[sink]) {
                        let _ = e.attributes.add(Identifier::from(name.as_str()), value);
                    }
                }
            }
        }
        let write_file = t.chance(1, 8);
        let inputs = json!({"source": source, "operations": ops});
        match check_graph(&graph, &index, write_file, "public API", inputs) {
            Err(f) => CaseOutcome::Fail(f),
            Ok((obs, wrote)) => {
                report.fingerprint = fingerprint(&ops);
                report.nontrivial = obs.edge_count() >= 1 && has_nested && has_escape;
                let mut labels = vec!["from-api".to_string()];
                if obs.nodes.iter().any(|n| n.edges.len() > 8) {
                    labels.push(">8-edges".into());
                }
                if odd_names {
                    labels.push("non-identifier-attribute-names".into());
                }
                if wrote {
                    labels.push("display_json-file".into());
                }
                if obs.nodes.is_empty() {
                    labels.push("empty-graph".into());
                }
                report.labels = labels;
                report.sample = Some(json!({"origin": "public API", "graph": obs.summary(), "operations": ops.iter().take(30).collect::<Vec<_>>()}));
                CaseOutcome::Pass(report)
            }
        }
    }
}

pub fn spec(tier: &str) -> Spec {
    let mut s = Spec::new("C14", tier, 12_000, 250_000, 1500);
    s.rule = "graphs built through the public API (0-40 nodes, edge sets incl. >8 per node, attribute values of every variant nested to depth 3, strings with quotes / control / non-ASCII characters, syntax-node references, attribute names that are identifiers or arbitrary strings) in 3 of 4 cases, graphs produced by executing generated programs (either mode) in 1 of 4. Oracle: serde_json::to_string(&graph) (and, for 1/8 of the API graphs, the file written by display_json) must be valid JSON by an own strict parser that keeps duplicate keys, and decode by the tag scheme to exactly what iter_nodes / iter_edges / Attributes::iter report (nodes once in index order with id = index, edges once in ascending sink order, typed values, sets without duplicates, syntaxNode id = node id truncated to u32); pretty_print must equal the harness's own rendering (attributes sorted by name) whenever all attribute names are identifiers. Non-trivial: >=1 edge, >=1 non-empty nested value and >=1 string needing an escape (API graphs) / >=1 edge and >=1 attribute (program graphs). Distinct = fingerprint of the build operations or of (DSL, source).".into();
    s.assumptions = vec![
        "a set holds at most one syntax-node reference (the relative order of several is address-dependent)".into(),
        "the JSON tag scheme (type/bool/int/string/values/id) is the one the CLI emits today; the property fixes faithfulness, not the scheme".into(),
    ];
    s
}

pub fn run_check(tier: &str) -> i32 {
    let started = std::time::Instant::now();
    let spec = spec(tier);
    let result = run_tapes(&spec, case);
    finish(&spec, result, started)
}
