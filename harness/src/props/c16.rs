//! C16 — globals are required unless defaulted, list-typed when declared, read-only.
//! Exhaustive product of declarations x supply patterns x modes (1 and 2 globals), static-rule
//! probes, and generated programs that read globals at every block depth.

use super::common::*;
use crate::cval::{observe, CVal};
use crate::dsl::Quant;
use crate::engine::*;
use crate::gen::GenCfg;
use crate::interp::Outcome;
use crate::lib_api::*;
use crate::pysrc;
use crate::tree::TreeIndex;
use serde_json::json;
use std::collections::BTreeMap;
use tree_sitter_graph::functions::Functions;
use tree_sitter_graph::graph::{Graph, Value};
use tree_sitter_graph::{ExecutionConfig, Identifier, NoCancellation, ParseError, Variables};

#[derive(Debug, Clone, Copy, PartialEq)]
struct Decl {
    quant: Quant,
    default: bool,
}

#[derive(Debug, Clone, Copy, PartialEq)]
enum Supply {
    Absent,
    Null,
    Bool,
    Int,
    Str,
    ListStr,
    ListEmpty,
    Set,
    Syn,
    GNode,
    OuterStr,
    OuterList,
    BothInnerWins,
}

const SUPPLIES: [Supply; 13] = [
    Supply::Absent,
    Supply::Null,
    Supply::Bool,
    Supply::Int,
    Supply::Str,
    Supply::ListStr,
    Supply::ListEmpty,
    Supply::Set,
    Supply::Syn,
    Supply::GNode,
    Supply::OuterStr,
    Supply::OuterList,
    Supply::BothInnerWins,
];

fn decls() -> Vec<Decl> {
    let mut out = vec![];
    for quant in [Quant::One, Quant::Opt, Quant::Star, Quant::Plus] {
        for default in [false, true] {
            out.push(Decl { quant, default });
        }
    }
    out
}

#[derive(Debug, Clone)]
struct ProductCase {
    globals: Vec<(Decl, Supply)>,
    lazy: bool,
    /// the file holds the declarations only, no stanza
    bare: bool,
}

/// The value the DSL must see, or None if the run must fail.
fn expected_value(d: Decl, s: Supply) -> Result<CVal, &'static str> {
    let supplied: Option<CVal> = match s {
        Supply::Absent => None,
        Supply::Null => Some(CVal::Null),
        Supply::Bool => Some(CVal::Bool(true)),
        Supply::Int => Some(CVal::Int(7)),
        Supply::Str | Supply::OuterStr => Some(CVal::Str("supplied".into())),
        Supply::ListStr | Supply::OuterList => Some(CVal::List(vec![CVal::Str("x".into()), CVal::Str("y".into())])),
        Supply::ListEmpty => Some(CVal::List(vec![])),
        Supply::Set => Some(CVal::Set([CVal::Int(1)].into_iter().collect())),
        Supply::Syn => Some(CVal::Syn(0)),
        Supply::GNode => Some(CVal::GNode(0)),
        Supply::BothInnerWins => Some(CVal::Str("inner".into())),
    };
    match supplied {
        None => {
            if d.default {
                Ok(CVal::Str("dflt".into()))
            } else {
                Err("missing")
            }
        }
        Some(v) => {
            if d.quant.is_list() && !matches!(v, CVal::List(_)) {
                Err("not-a-list")
            } else {
                Ok(v)
            }
        }
    }
}

fn product_dsl(globals: &[(Decl, Supply)], bare: bool) -> String {
    let mut s = String::new();
    for (i, (d, _)) in globals.iter().enumerate() {
        s.push_str(&format!("global g{}{}{}\n", i, d.quant.suffix(), if d.default { " = \"dflt\"" } else { "" }));
    }
    if bare {
        return s;
    }
    s.push_str("(module) @_m {\n  node n\n");
    for i in 0..globals.len() {
        s.push_str(&format!("  attr (n) top{} = g{}\n", i, i));
    }
    s.push_str("  if (is-null g0) {\n  }\n  for in_list in [g0] {\n    let copy_of_global = in_list\n  }\n");
    s.push_str("  if #true {\n    for x in [1] {\n      let y = [ g0 for e in [1] ]\n      attr (n) nested_list = y\n");
    for i in 0..globals.len() {
        s.push_str(&format!("      attr (n) deep{} = g{}\n", i, i));
    }
    s.push_str("    }\n  }\n}\n(pass_statement) @_p {\n  node k\n");
    for i in 0..globals.len() {
        s.push_str(&format!("  attr (k) second{} = g{}\n", i, i));
    }
    s.push_str("}\n");
    s
}

fn product_case(c: &ProductCase) -> CaseOutcome {
    let dsl = product_dsl(&c.globals, c.bare);
    let source = "pass\n";
    let render = |extra: serde_json::Value| json!({"dsl": dsl, "source": source, "lazy": c.lazy, "globals": c.globals.iter().map(|(d, s)| format!("{:?} / {:?}", d, s)).collect::<Vec<_>>(), "more": extra});
    let file = match load(&dsl) {
        Err(p) => return CaseOutcome::Fail(Failure::new(format!("C16:load-{}", p.signature()), p.message, render(json!({})))),
        Ok(Err(e)) => return CaseOutcome::Fail(Failure::new("C16:rejected", format!("valid declarations rejected: {}", e), render(json!({})))),
        Ok(Ok(f)) => f,
    };
    let tree = pysrc::parse(source);
    let index = TreeIndex::new(&tree);
    let mut graph = Graph::new();
    // a pre-existing graph node / syntax node to hand in as global values
    let pre_node = graph.add_graph_node();
    let syn = graph.add_syntax_node(tree.root_node());
    let mk = |s: Supply| -> Option<Value> {
        Some(match s {
            Supply::Absent => return None,
            Supply::Null => Value::Null,
            Supply::Bool => Value::Boolean(true),
            Supply::Int => Value::Integer(7),
            Supply::Str | Supply::OuterStr => Value::String("supplied".into()),
            Supply::ListStr | Supply::OuterList => Value::List(vec![Value::String("x".into()), Value::String("y".into())]),
            Supply::ListEmpty => Value::List(vec![]),
            Supply::Set => Value::Set([Value::Integer(1)].into_iter().collect()),
            Supply::Syn => Value::SyntaxNode(syn),
            Supply::GNode => Value::GraphNode(pre_node),
            Supply::BothInnerWins => Value::String("inner".into()),
        })
    };
    let mut outer = Variables::new();
    for (i, (_, s)) in c.globals.iter().enumerate() {
        let name = Identifier::from(format!("g{}", i).as_str());
        match s {
            Supply::OuterStr | Supply::OuterList => outer.add(name, mk(*s).unwrap()).unwrap(),
            Supply::BothInnerWins => outer.add(name, Value::String("outer".into())).unwrap(),
            _ => {}
        }
    }
    outer.add(Identifier::from("unrelated"), Value::Integer(1)).unwrap();
    let outer_before: BTreeMap<String, Value> = outer.iter().map(|(k, v)| (k.to_string(), v.clone())).collect();
    let mut inner = Variables::nested(&outer);
    for (i, (_, s)) in c.globals.iter().enumerate() {
        let name = Identifier::from(format!("g{}", i).as_str());
        match s {
            Supply::OuterStr | Supply::OuterList | Supply::Absent => {}
            _ => {
                // adding to a nested set a name bound in the outer one: unspecified whether allowed
                if inner.add(name, mk(*s).unwrap()).is_err() {
                    return CaseOutcome::Discard("nested Variables refuses to shadow an outer binding");
                }
            }
        }
    }
    let inner_before: BTreeMap<String, Value> = inner.iter().map(|(k, v)| (k.to_string(), v.clone())).collect();
    let functions = Functions::stdlib();
    let config = ExecutionConfig::new(&functions, &inner).lazy(c.lazy);
    let result = call_lib(|| file.execute_into(&mut graph, &tree, source, &config, &NoCancellation));
    let inner_after: BTreeMap<String, Value> = inner.iter().map(|(k, v)| (k.to_string(), v.clone())).collect();
    let outer_after: BTreeMap<String, Value> = outer.iter().map(|(k, v)| (k.to_string(), v.clone())).collect();
    if inner_after != inner_before || outer_after != outer_before {
        return CaseOutcome::Fail(Failure::new(
            "C16:caller-variables-changed",
            format!("the caller's variable sets changed: inner {:?} -> {:?}, outer {:?} -> {:?}", inner_before, inner_after, outer_before, outer_after),
            render(json!({})),
        ));
    }
    let expected: Vec<Result<CVal, &'static str>> = c.globals.iter().map(|(d, s)| expected_value(*d, *s)).collect();
    let must_fail = expected.iter().find_map(|e| e.as_ref().err().copied());
    let result = match result {
        Err(p) => return CaseOutcome::Fail(Failure::new(format!("C16:{}", p.signature()), p.message, render(json!({})))),
        Ok(r) => r,
    };
    let mut labels = vec![];
    match (must_fail, result) {
        (Some(why), Ok(())) => {
            return CaseOutcome::Fail(Failure::new(format!("C16:missing-error:{}", why), format!("execution succeeded although a global is {}", why), render(json!({}))));
        }
        (Some(why), Err(e)) => {
            let v = variant_name(root_cause(&e));
            let ok = match why {
                "missing" => v == "MissingGlobalVariable" || v == "ExpectedList",
                _ => v == "ExpectedList" || v == "MissingGlobalVariable",
            };
            if !ok {
                return CaseOutcome::Fail(Failure::new(format!("C16:wrong-error:{}", v), format!("a global is {} but the error is `{}`", why, e), render(json!({}))));
            }
            labels.push(format!("err:{}", why));
        }
        (None, Err(e)) => {
            return CaseOutcome::Fail(Failure::new(
                format!("C16:unexpected-error:{}", variant_name(root_cause(&e))),
                format!("all globals are supplied or defaulted correctly, execution failed: {}", e),
                render(json!({})),
            ));
        }
        (None, Ok(())) => {
            let obs = match observe(&graph, &index) {
                Ok(o) => o,
                Err(e) => return CaseOutcome::Fail(Failure::new("C16:bad-graph", e, render(json!({})))),
            };
            if c.bare {
                if obs.nodes.len() != 1 {
                    return CaseOutcome::Fail(Failure::new("C16:wrong-value", format!("a file without stanzas added {} graph nodes", obs.nodes.len() - 1), render(json!({"graph": obs.to_json()}))));
                }
                labels.push("ok".into());
                labels.push("declarations-only-file".into());
                return CaseOutcome::Pass(CaseReport { fingerprint: fingerprint(&format!("{:?}", c)), nontrivial: true, labels, counters: vec![], sample: Some(json!({"kind": "product", "dsl": dsl, "lazy": c.lazy})), evaluations: 1 });
            }
            // node 0 pre-existed; the nodes n and k follow in either order
            let find = |attr: &str| obs.nodes.iter().find_map(|n| n.attrs.get(attr));
            for (i, e) in expected.iter().enumerate() {
                let want = e.as_ref().unwrap();
                for prefix in ["top", "deep", "second"] {
                    let got = find(&format!("{}{}", prefix, i));
                    if got != Some(want) {
                        return CaseOutcome::Fail(Failure::new(
                            "C16:wrong-value",
                            format!("global g{} read at `{}` is {:?}, expected {:?}", i, prefix, got, want),
                            render(json!({"graph": obs.to_json()})),
                        ));
                    }
                }
            }
            let want0 = CVal::List(vec![expected[0].as_ref().unwrap().clone()]);
            if find("nested_list") != Some(&want0) {
                return CaseOutcome::Fail(Failure::new("C16:wrong-value", format!("global g0 read inside a comprehension is {:?}, expected {:?}", find("nested_list"), want0), render(json!({"graph": obs.to_json()}))));
            }
            labels.push("ok".into());
        }
    }
    let defaults_applied = c.globals.iter().filter(|(d, s)| d.default && *s == Supply::Absent).count();
    let supplied = c.globals.iter().filter(|(_, s)| *s != Supply::Absent).count();
    let listy = c.globals.iter().any(|(d, _)| d.quant.is_list());
    CaseOutcome::Pass(CaseReport {
        fingerprint: fingerprint(&format!("{:?}", c)),
        nontrivial: (defaults_applied >= 1 && supplied >= 1) || listy,
        labels,
        counters: vec![],
        sample: Some(json!({"kind": "product", "declarations": c.globals.iter().map(|(d, s)| format!("global g{}{} -> {:?}", d.quant.suffix(), if d.default { " = \"dflt\"" } else { "" }, s)).collect::<Vec<_>>(), "lazy": c.lazy})),
        evaluations: 1,
    })
}

// ------------------------------------------------------------------------------------------------
// static rules: a global cannot be redeclared, hidden or assigned

#[derive(Debug, Clone)]
struct StaticCase {
    decl: Decl,
    body: &'static str,
    /// "load:<fragment of the message>" or "run" (accepted at load, fails at run time)
    expect: &'static str,
    what: &'static str,
}

fn static_cases() -> Vec<StaticCase> {
    let bodies: [(&str, &str, &str); 9] = [
        ("(module) @_m { let g0 = 1 }", "load:Cannot hide global variable", "let"),
        ("(module) @_m { var g0 = 1 }", "load:Cannot hide global variable", "var"),
        ("(module) @_m { node g0 }", "load:Cannot hide global variable", "node"),
        ("(module) @_m { for g0 in [1] { print g0 } }", "load:Cannot hide global variable", "for"),
        ("(module) @_m { print [ 1 for g0 in [1] ] }", "load:Cannot hide global variable", "list comprehension"),
        ("(module) @_m { print { 1 for g0 in [1] } }", "load:Cannot hide global variable", "set comprehension"),
        ("(module) @_m { set g0 = 1 }", "load:Cannot set global variable", "set"),
        ("(module) @_m { if #true { scan \"a\" { \"a\" { let g0 = 1 } } } }", "load:Cannot hide global variable", "nested let"),
        ("attribute sh = g0 => a = g0\n(module) @_m { node n attr (n) sh = 1 }", "run", "shorthand variable"),
    ];
    let mut out = vec![];
    for d in decls() {
        for (body, expect, what) in bodies {
            out.push(StaticCase { decl: d, body, expect, what });
        }
    }
    out
}

fn static_case(c: &StaticCase) -> CaseOutcome {
    let decl = format!("global g0{}{}\n", c.decl.quant.suffix(), if c.decl.default { " = \"dflt\"" } else { "" });
    let mut variants = vec![(format!("{}{}\n", decl, c.body), c.expect, c.what.to_string())];
    // the declaration may also follow the stanza, and a second declaration is an error
    variants.push((format!("{}\n{}", c.body, decl), c.expect, format!("{} (declaration last)", c.what)));
    variants.push((format!("{}{}(module) @_m {{ print g0 }}\n", decl, decl), "load:Duplicate global variable", "duplicate declaration".to_string()));
    for (dsl, expect, what) in variants {
        let render = |extra: serde_json::Value| json!({"dsl": dsl, "rule": what, "more": extra});
        let loaded = match load(&dsl) {
            Err(p) => return CaseOutcome::Fail(Failure::new(format!("C16:load-{}", p.signature()), p.message, render(json!({})))),
            Ok(l) => l,
        };
        match (expect.strip_prefix("load:"), loaded) {
            (Some(fragment), Err(ParseError::Check(e))) => {
                let msg = format!("{}", e);
                if !msg.contains(fragment) || !msg.contains("g0") {
                    return CaseOutcome::Fail(Failure::new("C16:static-wrong-error", format!("{}: rejected with `{}`, expected `{} g0`", what, msg, fragment), render(json!({}))));
                }
            }
            (Some(fragment), Err(e)) => {
                return CaseOutcome::Fail(Failure::new("C16:static-wrong-error", format!("{}: rejected with `{}`, expected `{}`", what, e, fragment), render(json!({}))));
            }
            (Some(_), Ok(_)) => {
                return CaseOutcome::Fail(Failure::new(format!("C16:static-accepted:{}", c.what), format!("{} of a global was accepted at load time", what), render(json!({}))));
            }
            (None, Err(e)) => {
                return CaseOutcome::Fail(Failure::new("C16:static-rejected", format!("{}: rejected at load with `{}`, expected a run-time error", what, e), render(json!({}))));
            }
            (None, Ok(file)) => {
                let tree = pysrc::parse("pass\n");
                let index = TreeIndex::new(&tree);
                let mut globals = BTreeMap::new();
                globals.insert("g0".to_string(), if c.decl.quant.is_list() { CVal::List(vec![]) } else { CVal::Str("v".into()) });
                for lazy in [false, true] {
                    match run(&file, &tree, &index, "pass\n", &globals, &ExecOpts { lazy, debug: None }).0 {
                        LibRun::Err(_) => {}
                        LibRun::Panic(p) => return CaseOutcome::Fail(Failure::new(format!("C16:{}", p.signature()), p.message, render(json!({"lazy": lazy})))),
                        _ => return CaseOutcome::Fail(Failure::new(format!("C16:static-accepted:{}", c.what), format!("{} named like a global executed without an error (lazy={})", what, lazy), render(json!({})))),
                    }
                }
            }
        }
    }
    CaseOutcome::Pass(CaseReport {
        fingerprint: fingerprint(&format!("{:?}", c)),
        nontrivial: true,
        labels: vec![format!("static:{}", c.what)],
        counters: vec![],
        sample: Some(json!({"kind": "static rule", "declaration": decl, "body": c.body, "expect": c.expect})),
        evaluations: 3,
    })
}

// ------------------------------------------------------------------------------------------------
// generated programs reading globals at every depth

const PRODUCT_TAG: u32 = 0xFFFF_FF01;
const STATIC_TAG: u32 = 0xFFFF_FF02;

fn all_product_cases() -> Vec<ProductCase> {
    let mut product: Vec<ProductCase> = vec![];
    let ds = decls();
    for lazy in [false, true] {
        for d in &ds {
            for s in SUPPLIES {
                product.push(ProductCase { globals: vec![(*d, s)], lazy, bare: false });
                product.push(ProductCase { globals: vec![(*d, s)], lazy, bare: true });
            }
        }
        for d1 in &ds {
            for s1 in SUPPLIES {
                for d2 in &ds {
                    for s2 in SUPPLIES {
                        product.push(ProductCase { globals: vec![(*d1, s1), (*d2, s2)], lazy, bare: false });
                    }
                }
            }
        }
    }
    product
}

pub fn case(tape: &[u32]) -> CaseOutcome {
    // enumerated cases are addressed by a two-word tape (used by replay files)
    if tape.len() == 2 && tape[0] == PRODUCT_TAG {
        return match all_product_cases().get(tape[1] as usize) {
            Some(c) => product_case(c),
            None => CaseOutcome::Discard("no such product case"),
        };
    }
    if tape.len() == 2 && tape[0] == STATIC_TAG {
        return match static_cases().get(tape[1] as usize) {
            Some(c) => static_case(c),
            None => CaseOutcome::Discard("no such static case"),
        };
    }
    let (aux, main) = split_tape(tape);
    let mut t = Tape::new(&aux);
    let mut gt = Tape::new(&main);
    let mut cfg = GenCfg::fragment();
    cfg.force_globals = true;
    cfg.shorthands = t.chance(1, 2);
    let source = pysrc::gen_source(&mut t);
    let program = make_program(&mut gt, &cfg);
    let dsl = &program.printed.text;
    let file = match load_valid("C16", dsl) {
        Ok(f) => f,
        Err(o) => return o,
    };
    let tree = pysrc::parse(&source);
    let index = TreeIndex::new(&tree);
    // drop one supplied global now and then: the run must then fail unless it has a default
    let mut globals = program.gen.globals.clone();
    let mut dropped = None;
    if !globals.is_empty() && t.chance(1, 4) {
        let k = globals.keys().nth(t.choose(globals.len())).unwrap().clone();
        globals.remove(&k);
        dropped = Some(k);
    }
    let model = model_run(&program.gen.prog, &tree, &index, &source, &globals, Default::default());
    let d = |extra| detail(dsl, &source, &globals, extra);
    let mut report = CaseReport::default();
    report.evaluations = 0;
    let mut labels = vec![];
    for lazy in [false, true] {
        let mode = if lazy { "lazy" } else { "strict" };
        let (actual, _) = run_capped(&file, &tree, &index, &source, &globals, &ExecOpts { lazy, debug: None }, model.poll_cap());
        report.evaluations += 1;
        match (&model.outcome, &actual) {
            (_, LibRun::Panic(p)) => return CaseOutcome::Fail(Failure::new(format!("C16:{}:{}", mode, p.signature()), p.message.clone(), d(json!({})))),
            (Outcome::Inconclusive(_), _) => report.counters.push(("inconclusive".into(), 1)),
            (Outcome::Ok, LibRun::Ok(g)) => match compare_graphs(&model.graph, g, 0) {
                Cmp::Different(why) => {
                    return CaseOutcome::Fail(Failure::new(format!("C16:{}:graph-differs", mode), format!("a program that copies globals into attributes gives a different graph in {} mode: {}", mode, why), d(json!({"expected_graph": model.graph.to_json(), "actual_graph": g.to_json()}))));
                }
                _ => labels.push("ok".to_string()),
            },
            (Outcome::Ok, LibRun::Err(e)) => {
                // lazy may legitimately fail where strict succeeds only outside the fragment
                return CaseOutcome::Fail(Failure::new(format!("C16:{}:unexpected-error:{}", mode, variant_name(root_cause(e))), format!("{} execution failed: {}", mode, e), d(json!({}))));
            }
            (Outcome::Err(re), LibRun::Ok(_)) if matches!(re.kind, crate::interp::ErrKind::MissingGlobal | crate::interp::ErrKind::GlobalNotList) => {
                return CaseOutcome::Fail(Failure::new(format!("C16:{}:missing-error:{:?}", mode, re.kind), format!("{} execution succeeded although {}", mode, re.msg), d(json!({}))));
            }
            (Outcome::Err(re), _) => labels.push(format!("err:{:?}", re.kind)),
            _ => {}
        }
    }
    if dropped.is_some() {
        labels.push("one-global-dropped".into());
    }
    labels.sort();
    labels.dedup();
    let nglobals = program.gen.prog.globals().len();
    report.fingerprint = fingerprint(&(dsl, &source, format!("{:?}", globals)));
    report.nontrivial = nglobals >= 2 && model.trace.statements >= 3;
    report.labels = labels;
    report.sample = Some(json!({"kind": "generated", "dsl": dsl, "globals": globals_json(&globals)}));
    CaseOutcome::Pass(report)
}

pub fn spec(tier: &str) -> Spec {
    let mut s = Spec::new("C16", tier, 3_000, 40_000, 1000);
    s.rule = "(1) exhaustive product: every declaration (quantifier in {none,?,*,+} x default present/absent) x every supply pattern (absent; null, bool, int, string, list, empty list, set, syntax node, graph node; through the outer set of a nested Variables; in both sets, inner wins) x {strict, lazy}, for 1 global (with stanzas, and as a file of declarations only) and for all pairs of 2 globals; each run checks Ok/Err (missing-global / expected-list), the value seen at top level, inside if/for/comprehension and in a second stanza, and that the caller's inner and outer Variables are unchanged. (2) every static rule (let / var / node / for / comprehension variable / set / nested let / shorthand variable named like a global, duplicate declaration, declaration after the stanza) x every declaration. (3) generated programs with >=1 declared global read at every block depth, one supplied global dropped in a quarter of them, both modes, compared with the reference interpreter. Non-trivial: product cases where a default is applied next to a supplied value or a global is list-typed; all static cases; generated cases with >=2 globals and >=3 executed statements. Parts (1) and (2) are enumerated completely on every run.".into();
    s.assumptions = vec![
        "a `*`/`+` global that is absent and has a default evaluates to the default string (the list requirement applies to supplied values)".into(),
        "globals supplied by the caller but not declared are outside the property".into(),
    ];
    s.exhaustive = true;
    s
}

pub fn run_check(tier: &str) -> i32 {
    let started = std::time::Instant::now();
    let spec = spec(tier);
    // (1) the product
    let product: Vec<(usize, ProductCase)> = all_product_cases().into_iter().enumerate().collect();
    let r1 = run_fixed_parallel(&spec, &product, |c| product_case(&c.1), |c| vec![PRODUCT_TAG, c.0 as u32]);
    // (2) static rules
    let statics: Vec<(usize, StaticCase)> = static_cases().into_iter().enumerate().collect();
    let r2 = run_fixed_parallel(&spec, &statics, |c| static_case(&c.1), |c| vec![STATIC_TAG, c.0 as u32]);
    // (3) generated
    let r3 = run_tapes(&spec, case);
    let result = merge_results(merge_results(r1, r2), r3);
    finish(&spec, result, started)
}
