//! Helpers shared by the program-level properties.

use crate::cval::{isomorphic, CVal, Iso, MGraph};
use crate::dsl::*;
use crate::engine::*;
use crate::gen::{generate, GenCfg, Generated};
use crate::interp::{Interp, Outcome, RErr, Trace};
use crate::lib_api::*;
use crate::pysrc;
use crate::tree::TreeIndex;
use serde_json::{json, Value as J};
use std::collections::BTreeMap;
use tree_sitter::Tree;
use tree_sitter_graph::ast::File;

pub struct Program {
    pub gen: Generated,
    pub printed: Printed,
}

pub fn make_program(t: &mut Tape, cfg: &GenCfg) -> Program {
    let gen = generate(t, cfg);
    let printed = print_canonical(&gen.prog);
    Program { gen, printed }
}

pub fn globals_json(g: &BTreeMap<String, CVal>) -> J {
    J::Object(g.iter().map(|(k, v)| (k.clone(), v.to_json())).collect())
}

pub fn detail(dsl: &str, source: &str, globals: &BTreeMap<String, CVal>, extra: J) -> J {
    json!({
        "dsl": dsl,
        "source": source,
        "globals": globals_json(globals),
        "more": extra,
    })
}

pub struct ModelRun {
    pub outcome: Outcome,
    pub graph: MGraph,
    pub trace: Trace,
    /// steps the reference interpreter took
    pub steps: u64,
    /// duplicate scoped variable: the statement that defined it first
    pub conflict_with: Option<Id>,
}

impl ModelRun {
    /// poll bound for the implementation's run of the same inputs
    pub fn poll_cap(&self) -> u64 {
        poll_cap_for(self.steps)
    }
}

pub fn model_run(prog: &GProg, tree: &Tree, index: &TreeIndex, source: &str, globals: &BTreeMap<String, CVal>, initial: MGraph) -> ModelRun {
    let mut it = Interp::new(prog, tree, index, source, globals, initial);
    let outcome = it.run();
    let steps = it.steps_used();
    let conflict_with = it.conflict_with;
    ModelRun { outcome, graph: it.graph, trace: it.trace, steps, conflict_with }
}

pub fn rerr_json(e: &RErr) -> J {
    json!({"kind": format!("{:?}", e.kind), "message": e.msg, "site": e.site.as_ref().map(|s| json!({"stanza": s.stanza, "match": s.match_no, "root": s.root, "path": s.path}))})
}

/// Load a program that is valid by construction.  Err(outcome) = what the case should return.
pub fn load_valid(id: &str, text: &str) -> Result<File, CaseOutcome> {
    match load(text) {
        Err(p) => Err(CaseOutcome::Fail(Failure::new(format!("{}:load-{}", id, p.signature()), format!("loading panicked: {}", p.message), json!({"dsl": text})))),
        Ok(Err(e)) => {
            if std::env::var("VERIF_DEBUG").is_ok() {
                note(&format!("REJECTED: {}\n{}\n-----", e, text));
            }
            Err(CaseOutcome::Discard("generated program rejected by the loader"))
        }
        Ok(Ok(f)) => Ok(f),
    }
}

pub enum Cmp {
    Same,
    Inconclusive,
    Different(String),
}

pub fn compare_graphs(expected: &MGraph, actual: &MGraph, fixed: usize) -> Cmp {
    match isomorphic(expected, actual, fixed) {
        Iso::Yes(_) => Cmp::Same,
        Iso::Inconclusive => Cmp::Inconclusive,
        Iso::No(why) => Cmp::Different(why),
    }
}

pub fn pick_sources(t: &mut Tape, max: usize) -> Vec<String> {
    let n = 1 + t.choose(max);
    (0..n).map(|_| pysrc::gen_source(t)).collect()
}

pub fn max_block_depth(prog: &GProg) -> usize {
    let mut d = 0;
    for s in prog.stanzas() {
        walk_stmts(&s.body, 1, &mut |_, depth| d = d.max(depth));
    }
    d
}

/// Scoped names all of whose defining stanzas come before all stanzas that read them, with no
/// stanza doing both.  For such a name strict order and lazy evaluation see the same set of
/// definitions at every read, so "not defined" does not depend on the evaluation order.
/// (Shorthand bodies are not looked into: a program whose shorthands read scoped names gets the
/// empty set.)
pub fn definitions_first(prog: &GProg) -> std::collections::BTreeSet<String> {
    use std::collections::{BTreeMap, BTreeSet};
    let mut defs: BTreeMap<String, BTreeSet<usize>> = BTreeMap::new();
    let mut reads: BTreeMap<String, BTreeSet<usize>> = BTreeMap::new();
    for it in &prog.items {
        if let Item::Shorthand { attrs, .. } = it {
            let mut scoped = false;
            for a in attrs {
                if let Some(v) = &a.value {
                    walk_expr(v, &mut |x| {
                        if matches!(x, Expr::Scoped { .. }) {
                            scoped = true;
                        }
                    });
                }
            }
            if scoped {
                return BTreeSet::new();
            }
        }
    }
    for (si, st) in prog.stanzas().enumerate() {
        walk_stmts(&st.body, 0, &mut |s, _| {
            match s {
                Stmt::Let { var: VarRef::Scoped { name, .. }, .. } | Stmt::Var { var: VarRef::Scoped { name, .. }, .. } | Stmt::Set { var: VarRef::Scoped { name, .. }, .. } | Stmt::Node { var: VarRef::Scoped { name, .. }, .. } => {
                    defs.entry(name.clone()).or_default().insert(si);
                }
                _ => {}
            }
            for e in stmt_exprs(s) {
                walk_expr(e, &mut |x| {
                    if let Expr::Scoped { name, .. } = x {
                        reads.entry(name.clone()).or_default().insert(si);
                    }
                });
            }
        });
    }
    let mut out = BTreeSet::new();
    for (name, rs) in &reads {
        let ds = defs.get(name).cloned().unwrap_or_default();
        let last_def = ds.iter().max();
        let first_read = rs.iter().min().unwrap();
        if last_def.map(|d| d < first_read).unwrap_or(true) {
            out.insert(name.clone());
        }
    }
    out
}

/// Is this reference failure one that lazy evaluation has to report as well?
pub fn failure_binds_lazy(prog: &GProg, re: &crate::interp::RErr) -> bool {
    if re.kind.order_independent() {
        return true;
    }
    if re.kind == crate::interp::ErrKind::UndefinedScopedVariable {
        let name = re.msg.split(' ').next().unwrap_or("");
        return definitions_first(prog).contains(name);
    }
    false
}
