//! Helpers shared by the program-level properties.

use crate::cval::{isomorphic, CVal, Iso, MGraph};
use crate::dsl::*;
use crate::engine::*;
use crate::gen::{generate, GenCfg, Generated};
use crate::interp::{Interp, Outcome, RErr, Trace};
use crate::lib_api::*;
use crate::pysrc;
use crate::tree::TreeIndex;
use serde_json::{json, Value as J};
use std::collections::BTreeMap;
use tree_sitter::Tree;
use tree_sitter_graph::ast::File;

pub struct Program {
    pub gen: Generated,
    pub printed: Printed,
}

pub fn make_program(t: &mut Tape, cfg: &GenCfg) -> Program {
    let gen = generate(t, cfg);
    let printed = print_canonical(&gen.prog);
    Program { gen, printed }
}

pub fn globals_json(g: &BTreeMap<String, CVal>) -> J {
    J::Object(g.iter().map(|(k, v)| (k.clone(), v.to_json())).collect())
}

pub fn detail(dsl: &str, source: &str, globals: &BTreeMap<String, CVal>, extra: J) -> J {
    json!({
        "dsl": dsl,
        "source": source,
        "globals": globals_json(globals),
        "more": extra,
    })
}

pub struct ModelRun {
    pub outcome: Outcome,
    pub graph: MGraph,
    pub trace: Trace,
    /// steps the reference interpreter took
    pub steps: u64,
}

impl ModelRun {
    /// poll bound for the implementation's run of the same inputs
    pub fn poll_cap(&self) -> u64 {
        poll_cap_for(self.steps)
    }
}

pub fn model_run(prog: &GProg, tree: &Tree, index: &TreeIndex, source: &str, globals: &BTreeMap<String, CVal>, initial: MGraph) -> ModelRun {
    let mut it = Interp::new(prog, tree, index, source, globals, initial);
    let outcome = it.run();
    let steps = it.steps_used();
    ModelRun { outcome, graph: it.graph, trace: it.trace, steps }
}

pub fn rerr_json(e: &RErr) -> J {
    json!({"kind": format!("{:?}", e.kind), "message": e.msg, "site": e.site.as_ref().map(|s| json!({"stanza": s.stanza, "match": s.match_no, "root": s.root, "path": s.path}))})
}

/// Load a program that is valid by construction.  Err(outcome) = what the case should return.
pub fn load_valid(id: &str, text: &str) -> Result<File, CaseOutcome> {
    match load(text) {
        Err(p) => Err(CaseOutcome::Fail(Failure::new(format!("{}:load-{}", id, p.signature()), format!("loading panicked: {}", p.message), json!({"dsl": text})))),
        Ok(Err(e)) => {
            if std::env::var("VERIF_DEBUG").is_ok() {
                note(&format!("REJECTED: {}\n{}\n-----", e, text));
            }
            Err(CaseOutcome::Discard("generated program rejected by the loader"))
        }
        Ok(Ok(f)) => Ok(f),
    }
}

pub enum Cmp {
    Same,
    Inconclusive,
    Different(String),
}

pub fn compare_graphs(expected: &MGraph, actual: &MGraph, fixed: usize) -> Cmp {
    match isomorphic(expected, actual, fixed) {
        Iso::Yes(_) => Cmp::Same,
        Iso::Inconclusive => Cmp::Inconclusive,
        Iso::No(why) => Cmp::Different(why),
    }
}

pub fn pick_sources(t: &mut Tape, max: usize) -> Vec<String> {
    let n = 1 + t.choose(max);
    (0..n).map(|_| pysrc::gen_source(t)).collect()
}

pub fn max_block_depth(prog: &GProg) -> usize {
    let mut d = 0;
    for s in prog.stanzas() {
        walk_stmts(&s.body, 1, &mut |_, depth| d = d.max(depth));
    }
    d
}
