//! C10 — scan runs arms for the leftmost match, earlier arm first, and always advances
//! (reference model: spec-style scan oracle inside the reference interpreter).

use super::common::*;
use crate::cval::CVal;
use crate::dsl::*;
use crate::engine::*;
use crate::interp::{has_lookbehind_assertion, Outcome};
use crate::lib_api::*;
use crate::pysrc;
use crate::tree::TreeIndex;
use regex::Regex;
use serde_json::json;
use std::collections::BTreeMap;
use tree_sitter_graph::ParseError;

const PIECES: &[&str] = &["a", "b", "é", "ab", "ba", "[ab]", "[^a]", "(a)", "(b)?", "(a|b)", "a+", "b*", "(é|a)+", ".", "\\d", "(x)?", "/", "(a)(b)?", "[a-c]+", "(?:ab)+", "é+", "(b|)", "a?"];
const ALPHABET: &[&str] = &["a", "b", "é", "x", "/", "1", "ab", "日", "\n"];

fn gen_regex(t: &mut Tape) -> String {
    let seq = |t: &mut Tape| -> String {
        let n = 1 + t.weighted(&[5, 4, 2]);
        (0..n).map(|_| PIECES[t.choose(PIECES.len())]).collect::<Vec<_>>().concat()
    };
    let mut re = seq(t);
    // mostly non-nullable: a nullable regex only exercises the load-time rejection
    if Regex::new(&re).map(|r| r.is_match("")).unwrap_or(false) && t.chance(7, 8) {
        re.push_str(*t.pick(&["a", "b", "é", "[ab]", "/"]));
    }
    if t.chance(1, 5) {
        re = format!("{}|{}", re, seq(t));
    }
    if t.chance(1, 8) {
        re.push('$');
    }
    if t.chance(1, 12) {
        // assertion arms: reach the run-time empty-match error and restart-context behaviour
        let assertion = *t.pick(&["\\b", "^", "\\B"]);
        re = match t.weighted(&[2, 2, 1, 1]) {
            0 => format!("{}{}", assertion, re),
            1 => assertion.to_string(),
            // an empty match that depends on the context: possible only after some progress
            2 => format!("{}|{}", re, assertion),
            _ => format!("{}(?:{})*", assertion, re),
        };
    }
    re
}

fn gen_subject(t: &mut Tape) -> String {
    let n = t.choose(13);
    (0..n).map(|_| ALPHABET[t.choose(ALPHABET.len())]).collect::<Vec<_>>().concat()
}

struct Built {
    prog: GProg,
    arms: Vec<String>,
    subject: String,
    globals: BTreeMap<String, CVal>,
    nested: bool,
    beyond: bool,
}

fn arm_body(ids: &mut Ids, arm_no: usize, groups: usize, beyond: bool, inner: Option<Vec<ScanArm>>, tag: &str) -> Vec<Stmt> {
    let mut attrs = vec![
        Attr { name: format!("{}arm", tag), value: Some(Expr::Int(arm_no as u32, 0)) },
    ];
    for k in 0..=groups {
        attrs.push(Attr { name: format!("{}g{}", tag, k), value: Some(Expr::RegexCap(k)) });
    }
    if beyond {
        attrs.push(Attr { name: format!("{}g{}", tag, groups + 1), value: Some(Expr::RegexCap(groups + 1)) });
    }
    let n = format!("{}n", tag);
    let mut body = vec![
        Stmt::Let { id: ids.next(), var: VarRef::Plain { id: ids.next(), name: n.clone() }, value: Expr::Call { func: "node".into(), args: vec![] } },
        Stmt::AttrNode { id: ids.next(), node: Expr::Var { id: ids.next(), name: n.clone() }, attrs },
        Stmt::Edge { id: ids.next(), src: Expr::Var { id: ids.next(), name: "cur".into() }, dst: Expr::Var { id: ids.next(), name: n.clone() } },
        Stmt::Set { id: ids.next(), var: VarRef::Plain { id: ids.next(), name: "cur".into() }, value: Expr::Var { id: ids.next(), name: n } },
    ];
    if let Some(arms) = inner {
        body.push(Stmt::Scan { id: ids.next(), value: Expr::RegexCap(if groups >= 1 { 1 } else { 0 }), arms });
    }
    body
}

fn build(t: &mut Tape) -> Built {
    let mut ids = Ids::default();
    let narms = 1 + t.weighted(&[3, 5, 3, 2]);
    let arms_re: Vec<String> = (0..narms).map(|_| gen_regex(t)).collect();
    let subject = gen_subject(t);
    let via_global = t.chance(1, 3);
    let nested = t.chance(1, 4);
    let mut beyond = false;
    let mut arms = vec![];
    for (i, re) in arms_re.iter().enumerate() {
        let groups = Regex::new(re).map(|r| r.captures_len() - 1).unwrap_or(0);
        let b = t.chance(1, 25);
        beyond |= b;
        let inner = if nested && i == 0 {
            let inner_re = gen_regex(t);
            let g = Regex::new(&inner_re).map(|r| r.captures_len() - 1).unwrap_or(0);
            Some(vec![ScanArm { regex: inner_re, body: arm_body(&mut ids, 1, g, false, None, "in_") }])
        } else {
            None
        };
        arms.push(ScanArm { regex: re.clone(), body: arm_body(&mut ids, i + 1, groups, b, inner, "") });
    }
    let value = if via_global { Expr::Var { id: ids.next(), name: "subj".into() } } else { Expr::Str(subject.clone()) };
    let body = vec![
        Stmt::Var { id: ids.next(), var: VarRef::Plain { id: ids.next(), name: "cur".into() }, value: Expr::Call { func: "node".into(), args: vec![] } },
        Stmt::AttrNode { id: ids.next(), node: Expr::Var { id: ids.next(), name: "cur".into() }, attrs: vec![Attr { name: "start".into(), value: None }] },
        Stmt::Scan { id: ids.next(), value, arms },
        Stmt::AttrNode { id: ids.next(), node: Expr::Var { id: ids.next(), name: "cur".into() }, attrs: vec![Attr { name: "last".into(), value: None }] },
    ];
    let mut items = vec![];
    let mut globals = BTreeMap::new();
    if via_global {
        items.push(Item::Global { id: ids.next(), name: "subj".into(), quant: Quant::One, default: None });
        globals.insert("subj".to_string(), CVal::Str(subject.clone()));
    }
    items.push(Item::Stanza(Stanza { id: ids.next(), query: "(module) @_m".into(), captures: vec![Cap { name: "_m".into(), quant: Quant::One }], body, pool: usize::MAX }));
    Built { prog: GProg { items }, arms: arms_re, subject, globals, nested, beyond }
}

/// Labels describing the outer scan's match sequence.
fn describe(arms: &[String], subject: &str) -> (usize, bool, bool, bool) {
    let res: Vec<Regex> = arms.iter().filter_map(|a| Regex::new(a).ok()).collect();
    if res.len() != arms.len() {
        return (0, false, false, false);
    }
    let (mut iterations, mut tie, mut unmatched, mut multibyte) = (0, false, false, false);
    let mut p = 0;
    while p < subject.len() && iterations < 100 {
        let mut best: Option<(usize, usize, usize)> = None;
        let mut starts = vec![];
        for (i, r) in res.iter().enumerate() {
            if let Some(c) = r.captures(&subject[p..]) {
                let m = c.get(0).unwrap();
                starts.push(m.start());
                if best.map(|b| m.start() < b.0).unwrap_or(true) {
                    best = Some((m.start(), m.end(), i));
                }
            }
        }
        let (s, e, i) = match best {
            Some(b) => b,
            None => break,
        };
        if e == s {
            break;
        }
        if starts.iter().filter(|x| **x == s).count() >= 2 {
            tie = true;
        }
        let c = res[i].captures(&subject[p..]).unwrap();
        if (1..c.len()).any(|k| c.get(k).is_none()) {
            unmatched = true;
        }
        if !subject[p + s..p + e].is_ascii() {
            multibyte = true;
        }
        iterations += 1;
        p += e;
    }
    (iterations, tie, unmatched, multibyte)
}

pub fn case(tape: &[u32]) -> CaseOutcome {
    let mut t = Tape::new(tape);
    let b = build(&mut t);
    let printed = print_canonical(&b.prog);
    let dsl = &printed.text;
    let source = "pass\n";
    let d = |extra| detail(dsl, source, &b.globals, extra);
    // regexes must be valid; a regex that matches the empty string must be rejected at load time
    let mut all_res = b.arms.clone();
    walk_stmts(&b.prog.stanzas().next().unwrap().body, 0, &mut |s, _| {
        if let Stmt::Scan { arms, .. } = s {
            for a in arms {
                if !all_res.contains(&a.regex) {
                    all_res.push(a.regex.clone());
                }
            }
        }
    });
    let mut nullable = false;
    for re in &all_res {
        match Regex::new(re) {
            Err(_) => return CaseOutcome::Discard("generated regex is invalid"),
            Ok(r) => nullable |= r.is_match(""),
        }
    }
    let loaded = match load(dsl) {
        Err(p) => return CaseOutcome::Fail(Failure::new(format!("C10:load-{}", p.signature()), format!("loading panicked: {}", p.message), d(json!({})))),
        Ok(l) => l,
    };
    let mut report = CaseReport::default();
    report.fingerprint = fingerprint(&(dsl, &b.subject));
    report.sample = Some(json!({"arms": b.arms, "subject": b.subject, "dsl": dsl}));
    let file = match (loaded, nullable) {
        (Err(ParseError::Check(e)), true) => {
            let msg = format!("{}", e);
            if !msg.contains("Nullable regular expression") {
                return CaseOutcome::Fail(Failure::new("C10:wrong-load-error", format!("a regex that matches the empty string was rejected with `{}`", msg), d(json!({}))));
            }
            report.labels = vec!["nullable-rejected-at-load".into()];
            report.nontrivial = b.arms.len() >= 2;
            return CaseOutcome::Pass(report);
        }
        (Err(e), _) => {
            return CaseOutcome::Fail(Failure::new("C10:rejected", format!("a valid scan program was rejected: {}", e), d(json!({}))));
        }
        (Ok(_), true) => {
            return CaseOutcome::Fail(Failure::new("C10:nullable-accepted", "a scan arm whose regex matches the empty string was accepted at load time".to_string(), d(json!({}))));
        }
        (Ok(f), false) => f,
    };
    let tree = pysrc::parse(source);
    let index = TreeIndex::new(&tree);
    let model = model_run(&b.prog, &tree, &index, source, &b.globals, Default::default());
    let mut labels = vec![];
    report.evaluations = 0;
    for lazy in [false, true] {
        let mode = if lazy { "lazy" } else { "strict" };
        let (actual, _) = run_capped(&file, &tree, &index, source, &b.globals, &ExecOpts { lazy, debug: None }, model.poll_cap());
        report.evaluations += 1;
        match (&model.outcome, &actual) {
            (_, LibRun::Panic(p)) => return CaseOutcome::Fail(Failure::new(format!("C10:{}:{}", mode, p.signature()), format!("{} execution panicked: {}", mode, p.message), d(json!({})))),
            (_, LibRun::PollBound(n)) => return CaseOutcome::Fail(Failure::new(format!("C10:{}:no-progress", mode), format!("{} scan polled the cancellation flag {} times: it no longer advances", mode, n), d(json!({})))),
            (_, LibRun::BadGraph(w)) => return CaseOutcome::Fail(Failure::new(format!("C10:{}:bad-graph", mode), w.clone(), d(json!({})))),
            (Outcome::Inconclusive(why), _) => {
                report.counters.push((format!("inconclusive:{}", why.split(':').next().unwrap_or("")), 1));
            }
            (Outcome::Ok, LibRun::Ok(g)) => match compare_graphs(&model.graph, g, 0) {
                Cmp::Same => labels.push(format!("{}:ok", mode)),
                Cmp::Inconclusive => report.counters.push(("inconclusive:isomorphism-budget".into(), 1)),
                Cmp::Different(why) => {
                    return CaseOutcome::Fail(Failure::new(
                        format!("C10:{}:sequence-differs", mode),
                        format!("{} scan ran a different sequence of arms / bindings than the reference prescribes: {}", mode, why),
                        d(json!({"arms": b.arms, "subject": b.subject, "expected_graph": model.graph.to_json(), "actual_graph": g.to_json()})),
                    ))
                }
            },
            (Outcome::Ok, LibRun::Err(e)) => {
                return CaseOutcome::Fail(Failure::new(format!("C10:{}:unexpected-error:{}", mode, variant_name(root_cause(e))), format!("{} scan failed: {}", mode, e), d(json!({"arms": b.arms, "subject": b.subject}))));
            }
            (Outcome::Err(re), LibRun::Ok(g)) => {
                return CaseOutcome::Fail(Failure::new(
                    format!("C10:{}:missing-error:{:?}", mode, re.kind),
                    format!("the reference makes this scan fail ({:?}: {}), {} execution returned a graph ({})", re.kind, re.msg, mode, g.summary()),
                    d(json!({"arms": b.arms, "subject": b.subject})),
                ));
            }
            (Outcome::Err(re), LibRun::Err(_)) => labels.push(format!("{}:err:{:?}", mode, re.kind)),
        }
    }
    let (iterations, tie, unmatched, multibyte) = describe(&b.arms, &b.subject);
    if tie {
        labels.push("tie".into());
    }
    if unmatched {
        labels.push("unmatched-group".into());
    }
    if multibyte {
        labels.push("multibyte-consumed".into());
    }
    if b.nested {
        labels.push("nested-scan".into());
    }
    if b.beyond {
        labels.push("capture-beyond-groups".into());
    }
    if b.arms.iter().any(|a| has_lookbehind_assertion(a)) {
        labels.push("assertion-arm".into());
    }
    labels.push(format!("iterations:{}", match iterations { 0 => "0", 1 => "1", 2..=4 => "2-4", _ => "5+" }));
    report.labels = labels;
    report.nontrivial = b.arms.len() >= 2 && iterations >= 2 && (tie || unmatched || multibyte);
    CaseOutcome::Pass(report)
}

pub fn spec(tier: &str) -> Spec {
    let mut s = Spec::new("C10", tier, 20_000, 400_000, 300);
    s.rule = "1-4 arm regexes from a generated regex language (literals incl. multi-byte, classes, alternation, capturing / optional groups, +, *, ?, $ anchors; 1/12 with a \\b / ^ / \\B assertion) x subjects of 0-12 tokens over {a,b,é,x,/,1,ab,日}, as a literal or through a global; each arm block creates a node recording the arm number and every $k (occasionally one beyond the groups), chained by edges from a mutable local so the order of arm runs is observable; a quarter nest a second scan over $1. Executed strict and lazy (evaluations = executions) and compared with the reference interpreter's spec-style scan (walk start positions, earlier arm first, bind groups, continue after the match end); a regex matching the empty string must be rejected at load. A poll-bound breach counts as non-termination. Non-trivial: >=2 arms, >=2 iterations, and a tie at the earliest position, an unmatched group or a consumed multi-byte character. Distinct = fingerprint of (DSL text, subject).".into();
    s.assumptions = vec![
        "for assertion-free regexes the spec-style oracle (anchored match at each start position) and per-arm leftmost search agree; the harness checks this and panics (exit 2) otherwise".into(),
        "with \\b / ^ / \\B arms the restart context is unspecified: the per-arm search on the remaining suffix is used, and runs where a non-winning arm matches empty are inconclusive".into(),
    ];
    s
}

pub fn run_check(tier: &str) -> i32 {
    let started = std::time::Instant::now();
    let spec = spec(tier);
    let result = run_tapes(&spec, case);
    finish(&spec, result, started)
}
