//! C19 — the command-line tool reports exactly what the library computes
//! (black-box differential: CLI process vs in-process library result).

use super::common::*;
use crate::cval::{observe, CVal, MGraph};
use crate::dsl::*;
use crate::engine::*;
use crate::gen::GenCfg;
use crate::lib_api::*;
use crate::pysrc;
use crate::tree::TreeIndex;
use serde_json::json;
use std::collections::BTreeMap;
use std::path::PathBuf;
use std::process::Command;
use tree_sitter_graph::graph::Graph;
use tree_sitter_graph::parse_error::ParseError as TreeParseError;

fn work() -> PathBuf {
    verif_root().join(".work")
}

fn cli() -> PathBuf {
    work().join("cli-target").join("debug").join("tree-sitter-graph")
}

#[derive(Debug, Clone)]
struct Opts {
    lazy: bool,
    json: bool,
    output: bool,
    quiet: bool,
    allow_parse_errors: bool,
    globals: Vec<(String, String)>,
}

enum Expected {
    /// exit 0; stdout pretty graph / JSON value; JSON in the output file
    Ok { pretty: String, json: serde_json::Value, graph: MGraph, ambiguous: bool },
    /// non-zero exit, diagnostic on stderr, no graph on stdout
    Fail(&'static str),
}

fn normalise_json(v: &mut serde_json::Value) {
    match v {
        serde_json::Value::Object(m) => {
            if m.get("type").and_then(|t| t.as_str()) == Some("syntaxNode") {
                m.insert("id".into(), json!(0));
            }
            for x in m.values_mut() {
                normalise_json(x);
            }
        }
        serde_json::Value::Array(a) => a.iter_mut().for_each(normalise_json),
        _ => {}
    }
}

fn ambiguous(v: &CVal) -> bool {
    match v {
        CVal::Set(xs) => xs.iter().filter(|x| x.has_syn()).count() >= 2 || xs.iter().any(ambiguous),
        CVal::List(xs) => xs.iter().any(ambiguous),
        _ => false,
    }
}

fn expected(dsl: &str, source: &str, o: &Opts) -> Result<Expected, LibPanic> {
    // --global name=value: string globals; a repeated name is an error
    let mut globals: BTreeMap<String, CVal> = BTreeMap::new();
    for (k, v) in &o.globals {
        if globals.insert(k.clone(), CVal::Str(v.clone())).is_some() {
            return Ok(Expected::Fail("duplicate --global"));
        }
    }
    let file = match load(dsl)? {
        Err(_) => return Ok(Expected::Fail("DSL file rejected")),
        Ok(f) => f,
    };
    let tree = pysrc::parse(source);
    if !o.allow_parse_errors && !super::c18::expected_errors(&tree).0.is_empty() {
        return Ok(Expected::Fail("source has syntax errors"));
    }
    let index = TreeIndex::new(&tree);
    let mut graph = Graph::new();
    let flag = CountingFlag::new(None);
    match execute_into(&file, &mut graph, &tree, &index, source, &globals, &ExecOpts { lazy: o.lazy, debug: None }, &flag) {
        ExecOutcome::Ok => {
            let obs = observe(&graph, &index).map_err(|e| LibPanic { message: e })?;
            let amb = obs.nodes.iter().any(|n| n.attrs.values().any(ambiguous) || n.edges.values().any(|a| a.values().any(ambiguous)));
            let mut j = serde_json::to_value(&graph).unwrap_or(serde_json::Value::Null);
            normalise_json(&mut j);
            Ok(Expected::Ok { pretty: graph.pretty_print().to_string(), json: j, graph: obs, ambiguous: amb })
        }
        ExecOutcome::Err(_) => Ok(Expected::Fail("execution failed")),
        ExecOutcome::Panic(p) => Err(p),
        ExecOutcome::PollBound(_) => Err(LibPanic { message: "skip: poll bound".into() }),
    }
}

/// A quarter of the values get blanks in front or behind: they belong to the value.
fn pad(t: &mut Tape, v: String) -> String {
    match t.choose(8) {
        0 => format!(" {}", v),
        1 => format!("{} ", v),
        _ => v,
    }
}

pub fn case(tape: &[u32]) -> CaseOutcome {
    let (aux, main) = split_tape(tape);
    let mut t = Tape::new(&aux);
    let mut gt = Tape::new(&main);
    // inputs
    let mut cfg = GenCfg::full();
    cfg.max_stanzas = 4;
    cfg.fault = t.chance(1, 4);
    cfg.prints = t.chance(1, 3);
    cfg.gnode_text = true;
    let g = crate::gen::generate(&mut gt, &cfg);
    let mut dsl = print_canonical(&g.prog).text;
    if t.chance(1, 6) {
        // a rejected file
        let toks: Vec<&str> = dsl.split(' ').collect();
        let cut = t.choose(toks.len().max(1));
        dsl = toks[..cut].join(" ");
        dsl.push_str(*t.pick(&[" {", " let", " )", " @", ""]));
    }
    if t.chance(1, 8) {
        // a file that parses but breaks a static rule in a place execution never reaches
        dsl.push_str(*t.pick(&["\n(module) @unused_capture_here {\n}\n", "\n(module) @_mm {\n  if #false {\n    print nowhere_defined\n  }\n}\n", "\n(module) @_mm {\n  let once = 1\n  if #false {\n    set once = 2\n  }\n}\n"]));
    }
    let mut declared: Vec<String> = g.prog.globals().iter().map(|x| x.0.to_string()).collect();
    if t.chance(1, 12) {
        // a file of declarations only: nothing runs, the globals are checked all the same
        let (text, names): (&str, &[&str]) = *t.pick(&[
            ("global needed\n", &["needed"][..]),
            ("global xs*\n", &["xs"][..]),
            ("global opt?\nglobal dflt = \"x\"\n", &["opt", "dflt"][..]),
            ("global a\nglobal b+\n", &["a", "b"][..]),
        ]);
        dsl = text.to_string();
        declared = names.iter().map(|s| s.to_string()).collect();
    }
    let mut source = pysrc::gen_source(&mut t);
    if t.chance(1, 4) {
        let k = 1 + t.choose(2);
        source = pysrc::inject_faults(&mut t, &source, k);
    } else if t.chance(1, 10) {
        // syntax errors that show only as MISSING tokens
        source = pysrc::MISSING_ONLY[t.choose(pysrc::MISSING_ONLY.len())].to_string();
    } else if t.chance(1, 12) {
        // the whole tree is one ERROR node
        source = pysrc::ROOT_ERROR[t.choose(pysrc::ROOT_ERROR.len())].to_string();
    }
    // line endings and the end of the file belong to the source as well
    match t.choose(8) {
        0 => source = source.replace('\n', "\r\n"),
        1 => {
            while source.ends_with('\n') {
                source.pop();
            }
        }
        2 => source.push_str("\n\n"),
        _ => {}
    }
    // every declared global gets a string value most of the time
    let mut globals: Vec<(String, String)> = vec![];
    for name in &declared {
        if t.chance(5, 6) {
            let base = t.pick(&["", "a", "foo/bar.py", "k=v", "a b", "é", "x=y=z", "=", "a,b", ",", "x, y=z", "-v", "--json", "'q'", "\"dq\"", "a\nb", "{}", "$HOME", " lead", "trail ", "  ", "\tx\t"]).to_string();
            let padded = pad(&mut t, base);
            globals.push((name.to_string(), padded));
        }
    }
    if t.chance(1, 10) {
        globals.push(("extra".into(), "1".into()));
    }
    if t.chance(1, 25) && !globals.is_empty() {
        let dup = globals[0].clone();
        globals.push(dup);
    }
    let json_out = t.chance(1, 2);
    let opts = Opts { lazy: t.chance(1, 2), json: json_out, output: json_out && t.chance(1, 2), quiet: t.chance(1, 3), allow_parse_errors: t.chance(1, 2), globals };

    let exp = match expected(&dsl, &source, &opts) {
        Ok(e) => e,
        Err(p) if p.message.starts_with("skip:") => return CaseOutcome::Discard("in-process run too long"),
        Err(p) => return CaseOutcome::Fail(Failure::new(format!("C19:library-{}", p.signature()), p.message, json!({"dsl": dsl, "source": source}))),
    };
    // run the CLI
    let dir = work().join("c19").join(format!("{}-{:?}", std::process::id(), std::thread::current().id()).replace(['(', ')'], ""));
    let _ = std::fs::create_dir_all(&dir);
    let tsg_path = dir.join("t.tsg");
    let src_path = dir.join("x.py");
    let out_path = dir.join("out.json");
    let _ = std::fs::remove_file(&out_path);
    // sometimes the --output file exists already and is longer than anything the run writes
    let stale: Option<String> = if opts.output && t.chance(1, 2) { Some("stale-output-".repeat(40_000)) } else { None };
    if let Some(text) = &stale {
        if std::fs::write(&out_path, text).is_err() {
            harness_error("cannot write the pre-existing output file".into());
            return CaseOutcome::Discard("io");
        }
    }
    if std::fs::write(&tsg_path, &dsl).is_err() || std::fs::write(&src_path, &source).is_err() {
        harness_error("cannot write CLI input files".into());
        return CaseOutcome::Discard("io");
    }
    let mut args: Vec<String> = vec![tsg_path.to_string_lossy().to_string(), src_path.to_string_lossy().to_string()];
    if opts.lazy {
        args.push("--lazy".into());
    }
    if opts.json {
        args.push("--json".into());
    }
    if opts.output {
        args.push("--output".into());
        args.push(out_path.to_string_lossy().to_string());
    }
    if opts.quiet {
        args.push("--quiet".into());
    }
    if opts.allow_parse_errors {
        args.push("--allow-parse-errors".into());
    }
    for (k, v) in &opts.globals {
        args.push("--global".into());
        args.push(format!("{}={}", k, v));
    }
    let out = Command::new(cli())
        .args(&args)
        .env("TREE_SITTER_DIR", work().join("ts-config"))
        .env("TREE_SITTER_LIBDIR", work().join("ts-lib"))
        .env("RUST_BACKTRACE", "0")
        .env_remove("RUST_LOG")
        .current_dir(&dir)
        .output();
    let out = match out {
        Ok(o) => o,
        Err(e) => {
            harness_error(format!("cannot run the CLI binary {}: {}", cli().display(), e));
            return CaseOutcome::Discard("cli missing");
        }
    };
    let stdout = String::from_utf8_lossy(&out.stdout).to_string();
    let stderr = String::from_utf8_lossy(&out.stderr).to_string();
    let file_text = std::fs::read_to_string(&out_path).ok();
    let code = out.status.code();
    let d = |extra: serde_json::Value| json!({"dsl": dsl, "source": source, "arguments": args[2..].to_vec(), "exit": code, "stdout": stdout.chars().take(2000).collect::<String>(), "stderr": stderr.chars().take(2000).collect::<String>(), "output_file": file_text.as_ref().map(|s| s.chars().take(2000).collect::<String>()), "more": extra});
    if code.is_none() || stderr.contains("panicked at") {
        return CaseOutcome::Fail(Failure::new("C19:cli-crash", format!("the CLI crashed (status {:?})", out.status), d(json!({}))));
    }
    let mut labels = vec![];
    match &exp {
        Expected::Fail(why) => {
            if code == Some(0) {
                return CaseOutcome::Fail(Failure::new(format!("C19:exit-0-although:{}", why.replace(' ', "-")), format!("the CLI exits 0 although {}", why), d(json!({}))));
            }
            if stderr.trim().is_empty() {
                return CaseOutcome::Fail(Failure::new("C19:no-diagnostic", format!("the CLI fails ({}) without a diagnostic on stderr", why), d(json!({}))));
            }
            if !stdout.trim().is_empty() {
                return CaseOutcome::Fail(Failure::new("C19:output-on-failure", format!("the CLI fails ({}) but prints to stdout", why), d(json!({}))));
            }
            if file_text != stale {
                return CaseOutcome::Fail(Failure::new("C19:output-file-on-failure", format!("the CLI fails ({}) but writes the --output file", why), d(json!({}))));
            }
            labels.push(format!("fail:{}", why));
        }
        Expected::Ok { pretty, json: want_json, graph, ambiguous } => {
            if code != Some(0) {
                return CaseOutcome::Fail(Failure::new("C19:nonzero-exit", format!("loading and execution succeed in the library ({}), the CLI exits {:?}", graph.summary(), code), d(json!({}))));
            }
            if *ambiguous {
                labels.push("text-comparison-skipped(address-ordered set)".to_string());
            }
            if opts.json {
                let text = if opts.output {
                    if !stdout.is_empty() {
                        return CaseOutcome::Fail(Failure::new("C19:json-on-stdout-with-output", "--json --output FILE also prints to stdout".to_string(), d(json!({}))));
                    }
                    match &file_text {
                        Some(t) => t.clone(),
                        None => return CaseOutcome::Fail(Failure::new("C19:output-file-missing", "--output FILE was not written".to_string(), d(json!({})))),
                    }
                } else {
                    if file_text.is_some() {
                        return CaseOutcome::Fail(Failure::new("C19:unexpected-output-file", "an output file appeared without --output".to_string(), d(json!({}))));
                    }
                    let _ = &stale;
                    stdout.clone()
                };
                let mut got: serde_json::Value = match serde_json::from_str(&text) {
                    Ok(v) => v,
                    Err(e) => return CaseOutcome::Fail(Failure::new("C19:invalid-json", format!("the CLI's JSON does not parse: {}", e), d(json!({})))),
                };
                normalise_json(&mut got);
                if !*ambiguous && &got != want_json {
                    return CaseOutcome::Fail(Failure::new("C19:json-differs", "the CLI's JSON differs from the library's serialisation of the graph".to_string(), d(json!({"expected": want_json}))));
                }
                labels.push(if opts.output { "ok:json-file".to_string() } else { "ok:json-stdout".to_string() });
            } else if opts.quiet {
                if !stdout.is_empty() {
                    return CaseOutcome::Fail(Failure::new("C19:quiet-prints", "--quiet still prints to stdout".to_string(), d(json!({}))));
                }
                labels.push("ok:quiet".into());
            } else {
                if !*ambiguous && &stdout != pretty {
                    return CaseOutcome::Fail(Failure::new("C19:pretty-differs", "the CLI's output differs from the library's pretty_print".to_string(), d(json!({"expected": pretty}))));
                }
                labels.push("ok:pretty".into());
            }
        }
    }
    let nontrivial = match &exp {
        Expected::Ok { graph, .. } => !graph.nodes.is_empty(),
        Expected::Fail(_) => true,
    };
    let optsig = format!("lazy={} json={} output={} quiet={} allow={} globals={}", opts.lazy, opts.json, opts.output, opts.quiet, opts.allow_parse_errors, opts.globals.len());
    labels.push(format!("options:{}", optsig));
    CaseOutcome::Pass(CaseReport {
        fingerprint: fingerprint(&(&dsl, &source, format!("{:?}", opts))),
        nontrivial,
        labels,
        counters: vec![],
        sample: Some(json!({"dsl": dsl, "source": source, "arguments": args[2..].to_vec(), "exit": code})),
        evaluations: 1,
    })
}

pub fn spec(tier: &str) -> Spec {
    let mut s = Spec::new("C19", tier, 3_000, 40_000, 900);
    s.rule = "generated (DSL file, Python source) pairs - accepted files, truncated / rejected files (1/6), files with an injected run-time fault (1/4), sources with injected syntax errors (1/4) - x option sets over --lazy, --json, --output FILE (only together with --json, as the argument parser requires), --quiet, --allow-parse-errors and one --global name=value per declared global (values with spaces, `=`, non-ASCII; sometimes a global left out, an undeclared extra one or a repeated name). Each pair is computed in-process with the library (string globals, stdlib, same mode) and then handed to the CLI binary built from /repo with --features cli. Oracle: exit 0 exactly when load, the parse-error gate and execution succeed; then stdout = pretty_print, or the JSON (compared as parsed values, syntax-node ids normalised) on stdout or only in the --output file; --quiet removes only the pretty graph; otherwise non-zero exit, a diagnostic on stderr, nothing on stdout and no output file. Text comparison is skipped for graphs holding a set of two or more syntax nodes (address-ordered, known finding under C12). Non-trivial: a failing outcome or a non-empty graph. Distinct = fingerprint of (DSL, source, options).".into();
    s.assumptions = vec![
        "the CLI finds the Python grammar through TREE_SITTER_DIR / TREE_SITTER_LIBDIR under /verif/.work (prepared by tools/cli_env.sh from the cargo registry copy of tree-sitter-python 0.23.5)".into(),
        "--output paths are writable; globals not declared by the file are passed through unchanged".into(),
    ];
    s
}

pub fn run_check(tier: &str) -> i32 {
    let started = std::time::Instant::now();
    let spec = spec(tier);
    if !cli().exists() {
        println!("HARNESS-ERROR: CLI binary {} is missing (run tools/cli_env.sh)", cli().display());
        return 2;
    }
    let result = run_tapes(&spec, case);
    finish(&spec, result, started)
}
