//! C06 — the static checker rejects exactly the programs that break a documented rule
//! (reference checker + single-fault injection).

use super::common::*;
use crate::dsl::*;
use crate::engine::*;
use crate::gen::GenCfg;
use crate::lib_api::*;
use crate::refcheck::{self, Rule};
use serde_json::json;
use std::collections::BTreeSet;
use tree_sitter_graph::ParseError;

const FAULTS: &[&str] = &[
    "undefined-variable",
    "out-of-scope",
    "redefinition",
    "set-immutable",
    "set-undefined",
    "set-global",
    "hide-global",
    "duplicate-global",
    "unused-capture",
    "undefined-capture",
    "nonlocal-scan",
    "nonlocal-if",
    "nonlocal-for",
    "nonlocal-comprehension",
    "not-optional",
    "not-list-for",
    "not-list-comprehension",
    "nullable-regex",
];

struct Inj<'t, 'b> {
    t: &'t mut Tape<'b>,
    ids: Ids,
    counter: usize,
}

impl<'t, 'b> Inj<'t, 'b> {
    fn id(&mut self) -> Id {
        self.ids.next()
    }
    fn fresh(&mut self, base: &str) -> String {
        self.counter += 1;
        format!("{}_zz{}", base, self.counter)
    }
    fn var(&mut self, name: &str) -> Expr {
        Expr::Var { id: self.id(), name: name.to_string() }
    }
    fn let_(&mut self, name: &str, value: Expr) -> Stmt {
        Stmt::Let { id: self.id(), var: VarRef::Plain { id: self.id(), name: name.to_string() }, value }
    }
    /// wrap an expression 0-3 times in calls / list literals / let bindings; returns the
    /// statements to put in front and the expression to use
    fn route(&mut self, e: Expr, through_lets: bool, keep_string: bool) -> (Vec<Stmt>, Expr) {
        let mut pre = vec![];
        let mut cur = e;
        for _ in 0..self.t.choose(4) {
            match self.t.choose(if through_lets { 3 } else { 2 }) {
                0 => {
                    // a call keeps the value a string when asked to
                    cur = if keep_string { Expr::Call { func: "format".into(), args: vec![Expr::Str("{}".into()), cur] } } else { Expr::Call { func: "is-null".into(), args: vec![cur] } };
                }
                1 => {
                    if keep_string {
                        // through a list literal, or through a set / list comprehension whose
                        // element it is (the comprehension is as local as its element)
                        let inner = match self.t.choose(3) {
                            0 => Expr::List(vec![cur]),
                            1 => Expr::ListComp { id: self.id(), elem: Box::new(cur), var_id: self.id(), var: self.fresh("rz"), src: Box::new(Expr::List(vec![Expr::Int(1, 0)])) },
                            _ => Expr::SetComp { id: self.id(), elem: Box::new(cur), var_id: self.id(), var: self.fresh("rz"), src: Box::new(Expr::List(vec![Expr::Int(1, 0)])) },
                        };
                        cur = Expr::Call { func: "join".into(), args: vec![inner, Expr::Str("".into())] };
                    } else {
                        cur = Expr::List(vec![Expr::Int(1, 0), cur]);
                    }
                }
                _ => {
                    let name = self.fresh("via");
                    let s = self.let_(&name, cur);
                    pre.push(s);
                    cur = self.var(&name);
                }
            }
        }
        (pre, cur)
    }
}

/// Visible names at a block (by walking the path of enclosing statements).
#[derive(Clone, Debug)]
struct Vis {
    name: String,
    mutable: bool,
    same_block: bool,
}

/// Blocks of a stanza body, addressed by a path of (statement index, arm index).
fn block_paths(stmts: &[Stmt], prefix: Vec<(usize, usize)>, out: &mut Vec<Vec<(usize, usize)>>) {
    out.push(prefix.clone());
    for (i, s) in stmts.iter().enumerate() {
        match s {
            Stmt::If { arms, .. } => {
                for (a, arm) in arms.iter().enumerate() {
                    let mut p = prefix.clone();
                    p.push((i, a));
                    block_paths(&arm.body, p, out);
                }
            }
            Stmt::Scan { arms, .. } => {
                for (a, arm) in arms.iter().enumerate() {
                    let mut p = prefix.clone();
                    p.push((i, a));
                    block_paths(&arm.body, p, out);
                }
            }
            Stmt::For { body, .. } => {
                let mut p = prefix.clone();
                p.push((i, 0));
                block_paths(body, p, out);
            }
            _ => {}
        }
    }
}

fn block_mut<'a>(stmts: &'a mut Vec<Stmt>, path: &[(usize, usize)]) -> &'a mut Vec<Stmt> {
    if path.is_empty() {
        return stmts;
    }
    let (i, a) = path[0];
    match &mut stmts[i] {
        Stmt::If { arms, .. } => block_mut(&mut arms[a].body, &path[1..]),
        Stmt::Scan { arms, .. } => block_mut(&mut arms[a].body, &path[1..]),
        Stmt::For { body, .. } => block_mut(body, &path[1..]),
        _ => unreachable!(),
    }
}

/// Variables visible at position `pos` of the block at `path`.
fn visible_at(stmts: &[Stmt], path: &[(usize, usize)], pos: usize) -> Vec<Vis> {
    fn defs(s: &Stmt, same_block: bool, out: &mut Vec<Vis>) {
        match s {
            Stmt::Let { var: VarRef::Plain { name, .. }, .. } | Stmt::Node { var: VarRef::Plain { name, .. }, .. } => out.push(Vis { name: name.clone(), mutable: false, same_block }),
            Stmt::Var { var: VarRef::Plain { name, .. }, .. } => out.push(Vis { name: name.clone(), mutable: true, same_block }),
            _ => {}
        }
    }
    let mut out = vec![];
    let mut cur = stmts;
    let mut rest = path;
    loop {
        let limit = if rest.is_empty() { pos } else { rest[0].0 };
        for s in cur.iter().take(limit) {
            defs(s, rest.is_empty(), &mut out);
        }
        if rest.is_empty() {
            break;
        }
        let (i, a) = rest[0];
        match &cur[i] {
            Stmt::If { arms, .. } => cur = &arms[a].body,
            Stmt::Scan { arms, .. } => cur = &arms[a].body,
            Stmt::For { var, body, .. } => {
                out.push(Vis { name: var.clone(), mutable: false, same_block: rest.len() == 1 });
                cur = body;
            }
            _ => break,
        }
        rest = &rest[1..];
    }
    // innermost definition wins
    let mut seen = std::collections::BTreeSet::new();
    let mut uniq = vec![];
    for v in out.into_iter().rev() {
        if seen.insert(v.name.clone()) {
            uniq.push(v);
        }
    }
    uniq
}

/// Inject `fault` into the program.  Returns the expected rule and name, or None if there is no
/// eligible site.
fn inject(inj: &mut Inj, prog: &mut GProg, fault: &str) -> Option<(Rule, String)> {
    let nst = prog.stanzas().count();
    if nst == 0 {
        return None;
    }
    let globals: Vec<String> = prog.globals().iter().map(|g| g.0.to_string()).collect();
    // item-level faults
    match fault {
        "duplicate-global" => {
            let g = globals.get(inj.t.choose(globals.len().max(1)))?.clone();
            let id = inj.id();
            let at = inj.t.choose(prog.items.len() + 1);
            // a second declaration must come after the first to be the one reported
            let first = prog.items.iter().position(|i| matches!(i, Item::Global { name, .. } if name == &g))?;
            let at = at.max(first + 1);
            prog.items.insert(at, Item::Global { id, name: g.clone(), quant: Quant::One, default: None });
            return Some((Rule::DuplicateGlobal, g));
        }
        "unused-capture" => {
            let cands: Vec<usize> = prog.stanzas().enumerate().filter(|(_, s)| s.captures.iter().any(|c| c.name.starts_with('_') && !used_captures(&s.body).contains(&c.name))).map(|x| x.0).collect();
            if cands.is_empty() {
                return None;
            }
            let si = cands[inj.t.choose(cands.len())];
            let st = prog.stanzas_mut().nth(si)?;
            let used = used_captures(&st.body);
            let cap = st.captures.iter().find(|c| c.name.starts_with('_') && !used.contains(&c.name))?.clone();
            let new = format!("uc{}", cap.name.trim_start_matches('_').replace('-', "_"));
            if st.captures.iter().any(|c| c.name == new) {
                return None;
            }
            let needle = format!("@{}", cap.name);
            // whole-token replacement
            let mut q = String::new();
            let mut rest = st.query.as_str();
            while let Some(p) = rest.find(&needle) {
                let after = &rest[p + needle.len()..];
                let boundary = !after.chars().next().map(|c| c == '_' || c == '-' || c.is_alphanumeric()).unwrap_or(false);
                q.push_str(&rest[..p]);
                q.push_str(&if boundary { format!("@{}", new) } else { needle.clone() });
                rest = after;
            }
            q.push_str(rest);
            st.query = q;
            for c in st.captures.iter_mut() {
                if c.name == cap.name {
                    c.name = new.clone();
                }
            }
            return Some((Rule::UnusedCapture, format!("@{}", new)));
        }
        _ => {}
    }
    // statement-level faults: a stanza, a block in it, a position
    let si = inj.t.choose(nst);
    let (caps, body_snapshot) = {
        let st = prog.stanzas().nth(si)?;
        (st.captures.clone(), st.body.clone())
    };
    let mut paths = vec![];
    block_paths(&body_snapshot, vec![], &mut paths);
    // prefer nested blocks half of the time
    let nested: Vec<&Vec<(usize, usize)>> = paths.iter().filter(|p| !p.is_empty()).collect();
    let path: Vec<(usize, usize)> = if !nested.is_empty() && inj.t.chance(1, 2) { nested[inj.t.choose(nested.len())].clone() } else { paths[inj.t.choose(paths.len())].clone() };
    let block_len = {
        let mut b = body_snapshot.clone();
        block_mut(&mut b, &path).len()
    };
    let pos = inj.t.choose(block_len + 1);
    let vis = visible_at(&body_snapshot, &path, pos);
    let one_cap = caps.iter().find(|c| c.quant == Quant::One).map(|c| c.name.clone());
    let cap_expr = |inj: &mut Inj, name: &str| Expr::Capture { id: inj.id(), name: name.to_string() };
    let mut stmts: Vec<Stmt> = vec![];
    let expected: (Rule, String);
    // set by `nonlocal` when the fault statements have to sit in a nested block below this one
    let mut shadow_outer: Option<Stmt> = None;
    // a non-local string / list value for the locality faults
    let mut nonlocal = |inj: &mut Inj, want_list: bool| -> Option<(Vec<Stmt>, Expr)> {
        let mut pre = vec![];
        let base = match inj.t.choose(4) {
            3 => {
                // a mutable variable that shadows an immutable one of an enclosing block: the
                // statements are put into a nested block by the caller (`shadow_outer`)
                let m = inj.fresh("shadowed");
                shadow_outer = Some(Stmt::Let { id: inj.id(), var: VarRef::Plain { id: inj.id(), name: m.clone() }, value: if want_list { Expr::List(vec![Expr::Int(0, 0)]) } else { Expr::Str("outer".into()) } });
                pre.push(Stmt::Var { id: inj.id(), var: VarRef::Plain { id: inj.id(), name: m.clone() }, value: if want_list { Expr::List(vec![Expr::Int(1, 0)]) } else { Expr::Str("s".into()) } });
                inj.var(&m)
            }
            0 => {
                let c = one_cap.clone()?;
                Expr::Scoped { id: inj.id(), scope: Box::new(cap_expr(inj, &c)), name: "any_scoped".into() }
            }
            1 => {
                let m = inj.fresh("mut");
                pre.push(Stmt::Var { id: inj.id(), var: VarRef::Plain { id: inj.id(), name: m.clone() }, value: if want_list { Expr::List(vec![Expr::Int(1, 0)]) } else { Expr::Str("s".into()) } });
                inj.var(&m)
            }
            _ => {
                // mutable, and assigned again
                let m = inj.fresh("mut");
                pre.push(Stmt::Var { id: inj.id(), var: VarRef::Plain { id: inj.id(), name: m.clone() }, value: if want_list { Expr::List(vec![]) } else { Expr::Str("s".into()) } });
                pre.push(Stmt::Set { id: inj.id(), var: VarRef::Plain { id: inj.id(), name: m.clone() }, value: if want_list { Expr::List(vec![Expr::Int(2, 0)]) } else { Expr::Str("t".into()) } });
                inj.var(&m)
            }
        };
        if want_list {
            // keep the list quantifier: a list literal around it, possibly bound by lets
            let mut cur = Expr::List(vec![base]);
            for _ in 0..inj.t.choose(3) {
                let name = inj.fresh("via");
                let s = inj.let_(&name, cur);
                pre.push(s);
                cur = inj.var(&name);
            }
            Some((pre, cur))
        } else {
            let (more, cur) = inj.route(base, true, true);
            pre.extend(more);
            Some((pre, cur))
        }
    };
    match fault {
        "undefined-variable" => {
            let name = inj.fresh("undefined");
            let v = inj.var(&name);
            let (pre, e) = inj.route(v, false, false);
            stmts.extend(pre);
            let flt = inj.fresh("flt");
            stmts.push(inj.let_(&flt, e));
            expected = (Rule::UndefinedVariable, name);
        }
        "out-of-scope" => {
            // a variable defined inside a nested block of this block, used after that block
            let mut b = body_snapshot.clone();
            let blk = block_mut(&mut b, &path).clone();
            let mut found = None;
            for (i, s) in blk.iter().enumerate() {
                let inner: Vec<&Vec<Stmt>> = match s {
                    Stmt::If { arms, .. } => arms.iter().map(|a| &a.body).collect(),
                    Stmt::Scan { arms, .. } => arms.iter().map(|a| &a.body).collect(),
                    Stmt::For { body, .. } => vec![body],
                    _ => vec![],
                };
                for body in inner {
                    for st in body {
                        if let Stmt::Let { var: VarRef::Plain { name, .. }, .. } | Stmt::Var { var: VarRef::Plain { name, .. }, .. } | Stmt::Node { var: VarRef::Plain { name, .. }, .. } = st {
                            found = Some((i, name.clone()));
                        }
                    }
                }
                if let Stmt::For { var, .. } = s {
                    found = Some((i, var.clone()));
                }
            }
            let (i, name) = found?;
            let after = visible_at(&body_snapshot, &path, i + 1);
            if after.iter().any(|v| v.name == name) || globals.contains(&name) {
                return None;
            }
            let flt = inj.fresh("flt");
            let v = inj.var(&name);
            let s = inj.let_(&flt, v);
            let st = prog.stanzas_mut().nth(si)?;
            block_mut(&mut st.body, &path).insert(i + 1, s);
            return Some((Rule::UndefinedVariable, name));
        }
        "redefinition" => {
            let same: Vec<&Vis> = vis.iter().filter(|v| v.same_block).collect();
            let name = if same.is_empty() {
                let n = inj.fresh("twice");
                stmts.push(inj.let_(&n, Expr::Int(1, 0)));
                n
            } else {
                same[inj.t.choose(same.len())].name.clone()
            };
            let s = match inj.t.choose(3) {
                0 => inj.let_(&name, Expr::Int(2, 0)),
                1 => Stmt::Var { id: inj.id(), var: VarRef::Plain { id: inj.id(), name: name.clone() }, value: Expr::Int(2, 0) },
                _ => Stmt::Node { id: inj.id(), var: VarRef::Plain { id: inj.id(), name: name.clone() } },
            };
            stmts.push(s);
            expected = (Rule::Redefinition, name);
        }
        "set-immutable" => {
            let imm: Vec<&Vis> = vis.iter().filter(|v| !v.mutable).collect();
            let name = if imm.is_empty() || inj.t.chance(1, 2) {
                // a fresh immutable, bound to a local or to a non-local value
                let n = inj.fresh("imm");
                let value = if inj.t.chance(1, 2) {
                    match nonlocal(inj, false) {
                        Some((pre, e)) => {
                            stmts.extend(pre);
                            e
                        }
                        None => Expr::Int(1, 0),
                    }
                } else {
                    Expr::Int(1, 0)
                };
                stmts.push(inj.let_(&n, value));
                n
            } else {
                imm[inj.t.choose(imm.len())].name.clone()
            };
            let assigned = match inj.t.choose(3) {
                0 => Expr::Int(2, 0),
                1 => Expr::Str("again".into()),
                _ => Expr::List(vec![]),
            };
            stmts.push(Stmt::Set { id: inj.id(), var: VarRef::Plain { id: inj.id(), name: name.clone() }, value: assigned });
            expected = (Rule::SetImmutable, name);
        }
        "set-undefined" => {
            let name = inj.fresh("nowhere");
            stmts.push(Stmt::Set { id: inj.id(), var: VarRef::Plain { id: inj.id(), name: name.clone() }, value: Expr::Int(2, 0) });
            expected = (Rule::SetUndefined, name);
        }
        "set-global" => {
            let g = globals.get(inj.t.choose(globals.len().max(1)))?.clone();
            stmts.push(Stmt::Set { id: inj.id(), var: VarRef::Plain { id: inj.id(), name: g.clone() }, value: Expr::Int(2, 0) });
            expected = (Rule::SetGlobal, g);
        }
        "hide-global" => {
            let g = globals.get(inj.t.choose(globals.len().max(1)))?.clone();
            let s = match inj.t.choose(5) {
                0 => inj.let_(&g, Expr::Int(2, 0)),
                1 => Stmt::Var { id: inj.id(), var: VarRef::Plain { id: inj.id(), name: g.clone() }, value: Expr::Int(2, 0) },
                2 => Stmt::Node { id: inj.id(), var: VarRef::Plain { id: inj.id(), name: g.clone() } },
                3 => Stmt::For { id: inj.id(), var_id: inj.id(), var: g.clone(), value: Expr::List(vec![Expr::Int(1, 0)]), body: vec![] },
                _ => {
                    let flt = inj.fresh("flt");
                    let comp = Expr::ListComp { id: inj.id(), elem: Box::new(Expr::Int(1, 0)), var_id: inj.id(), var: g.clone(), src: Box::new(Expr::List(vec![Expr::Int(1, 0)])) };
                    inj.let_(&flt, comp)
                }
            };
            stmts.push(s);
            expected = (Rule::HideGlobal, g);
        }
        "undefined-capture" => {
            // a name no query binds, or one that only OTHER stanzas of the file bind
            let elsewhere: Vec<String> = prog.stanzas().enumerate().filter(|(i, _)| *i != si).flat_map(|(_, s)| s.captures.iter().map(|c| c.name.clone()).collect::<Vec<_>>()).filter(|n| !caps.iter().any(|c| &c.name == n)).collect();
            let name = if !elsewhere.is_empty() && inj.t.chance(1, 2) { elsewhere[inj.t.choose(elsewhere.len())].clone() } else { inj.fresh("nocap") };
            let c = cap_expr(inj, &name);
            let (pre, e) = inj.route(c, false, false);
            stmts.extend(pre);
            let flt = inj.fresh("flt");
            stmts.push(inj.let_(&flt, e));
            expected = (Rule::UndefinedCapture, name);
        }
        "nonlocal-scan" => {
            let (pre, e) = nonlocal(inj, false)?;
            stmts.extend(pre);
            stmts.push(Stmt::Scan { id: inj.id(), value: e, arms: vec![ScanArm { regex: "a".into(), body: vec![] }] });
            expected = (Rule::NonLocal, String::new());
        }
        "nonlocal-if" => {
            let (pre, e) = nonlocal(inj, false)?;
            stmts.extend(pre);
            let cond = Cond::Bool(inj.id(), Expr::Call { func: "eq".into(), args: vec![e, Expr::Str("x".into())] });
            let mut conds = vec![cond];
            if inj.t.chance(1, 2) {
                conds.insert(0, Cond::Bool(inj.id(), Expr::True));
            }
            let arm = IfArm { id: inj.id(), conds, body: vec![] };
            let mut arms = vec![arm];
            if inj.t.chance(1, 2) {
                // the offending condition sits in an elif arm
                arms.insert(0, IfArm { id: inj.id(), conds: vec![Cond::Bool(inj.id(), Expr::False)], body: vec![] });
            }
            stmts.push(Stmt::If { id: inj.id(), arms });
            expected = (Rule::NonLocal, String::new());
        }
        "nonlocal-for" => {
            let (pre, e) = nonlocal(inj, true)?;
            stmts.extend(pre);
            stmts.push(Stmt::For { id: inj.id(), var_id: inj.id(), var: inj.fresh("it"), value: e, body: vec![] });
            expected = (Rule::NonLocal, String::new());
        }
        "nonlocal-comprehension" => {
            let (pre, e) = nonlocal(inj, true)?;
            stmts.extend(pre);
            let v = inj.fresh("e");
            let comp = if inj.t.chance(1, 2) {
                Expr::ListComp { id: inj.id(), elem: Box::new(Expr::Int(1, 0)), var_id: inj.id(), var: v, src: Box::new(e) }
            } else {
                Expr::SetComp { id: inj.id(), elem: Box::new(Expr::Int(1, 0)), var_id: inj.id(), var: v, src: Box::new(e) }
            };
            let flt = inj.fresh("flt");
            stmts.push(inj.let_(&flt, comp));
            expected = (Rule::NonLocal, String::new());
        }
        "not-optional" => {
            let opt_cap = caps.iter().find(|c| c.quant == Quant::Opt).map(|c| c.name.clone());
            let e = match inj.t.choose(6) {
                0 => Expr::Str("s".into()),
                1 => Expr::List(vec![]),
                2 => cap_expr(inj, &one_cap.clone()?),
                // a comprehension is a list / set whatever its element is
                3 | 4 => {
                    let elem = match &opt_cap {
                        Some(c) => cap_expr(inj, c),
                        None => Expr::Null,
                    };
                    let src = Box::new(Expr::List(vec![Expr::Int(1, 0)]));
                    let var = inj.fresh("cz");
                    if inj.t.chance(1, 2) {
                        Expr::SetComp { id: inj.id(), elem: Box::new(elem), var_id: inj.id(), var, src }
                    } else {
                        Expr::ListComp { id: inj.id(), elem: Box::new(elem), var_id: inj.id(), var, src }
                    }
                }
                _ => {
                    let n = inj.fresh("plain");
                    stmts.push(inj.let_(&n, Expr::Int(1, 0)));
                    inj.var(&n)
                }
            };
            let cond = if inj.t.chance(1, 2) { Cond::Some(inj.id(), e) } else { Cond::None(inj.id(), e) };
            stmts.push(Stmt::If { id: inj.id(), arms: vec![IfArm { id: inj.id(), conds: vec![cond], body: vec![] }] });
            expected = (Rule::NotOptional, String::new());
        }
        "not-list-for" | "not-list-comprehension" => {
            let e = match inj.t.choose(4) {
                0 => Expr::Str("s".into()),
                1 => Expr::Call { func: "concat".into(), args: vec![Expr::List(vec![Expr::Int(1, 0)])] },
                2 => cap_expr(inj, &one_cap.clone()?),
                _ => {
                    let n = inj.fresh("plain");
                    stmts.push(inj.let_(&n, Expr::Int(1, 0)));
                    inj.var(&n)
                }
            };
            if fault == "not-list-for" {
                stmts.push(Stmt::For { id: inj.id(), var_id: inj.id(), var: inj.fresh("it"), value: e, body: vec![] });
            } else {
                let v = inj.fresh("e");
                let comp = Expr::ListComp { id: inj.id(), elem: Box::new(Expr::Int(1, 0)), var_id: inj.id(), var: v, src: Box::new(e) };
                let flt = inj.fresh("flt");
                stmts.push(inj.let_(&flt, comp));
            }
            expected = (Rule::NotList, String::new());
        }
        "nullable-regex" => {
            let re = *inj.t.pick(&["a*", "", "(b)?", "x|", "$", "a?b*"]);
            let mut arms = vec![ScanArm { regex: re.to_string(), body: vec![] }];
            if inj.t.chance(1, 2) {
                arms.insert(0, ScanArm { regex: "ok".into(), body: vec![] });
            }
            stmts.push(Stmt::Scan { id: inj.id(), value: Expr::Str("subject".into()), arms });
            expected = (Rule::NullableRegex, re.to_string());
        }
        _ => return None,
    }
    // a shadowing fault: the outer declaration stays in this block, the rest goes into a nested one
    let stmts = match shadow_outer {
        Some(outer) => vec![outer, Stmt::If { id: inj.id(), arms: vec![IfArm { id: inj.id(), conds: vec![Cond::Bool(inj.id(), Expr::True)], body: stmts }] }],
        None => stmts,
    };
    let st = prog.stanzas_mut().nth(si)?;
    let blk = block_mut(&mut st.body, &path);
    for (k, s) in stmts.into_iter().enumerate() {
        blk.insert(pos + k, s);
    }
    Some(expected)
}

fn check_error_debug(e: &ParseError) -> Option<(String, Option<(usize, usize)>)> {
    match e {
        ParseError::Check(c) => {
            let dbg = format!("{:?}", c);
            let re = regex::Regex::new(r"Location \{ row: (\d+), column: (\d+) \}\)$").unwrap();
            let mut loc: Option<(usize, usize)> = re.captures(&dbg).map(|m| (m[1].parse().unwrap(), m[2].parse().unwrap()));
            if loc.is_none() {
                // the derived Debug rendering is not an interface: fall back on the message text
                // (`... at (row, column)`, one-based)
                let msg = format!("{}", e);
                let re2 = regex::Regex::new(r"at \((\d+), (\d+)\)").unwrap();
                loc = re2.captures_iter(msg.lines().next().unwrap_or("")).last().and_then(|m| Some((m[1].parse::<usize>().ok()?.checked_sub(1)?, m[2].parse::<usize>().ok()?.checked_sub(1)?)));
            }
            Some((dbg, loc))
        }
        _ => None,
    }
}

const D16_TAG: u32 = 0xFFFF_FF16;

/// Known finding D16: rule violations inside a shorthand body are not reported.
fn pinned_d16(i: usize) -> CaseOutcome {
    let bodies = [
        ("attribute sh = v => a = undefined_variable\n(module) @m { node @m.n attr (@m.n) sh = 1 }\n", "use of an undefined variable"),
        ("attribute sh = v => a = @nocapture\n(module) @m { node @m.n attr (@m.n) sh = 1 }\n", "use of an undefined capture"),
        ("attribute sh = v => items = [ x for x in v ]\n(module) @m { node @m.n attr (@m.n) sh = @m.list }\n(module) @m { let @m.list = [1] }\n", "comprehension over a value that depends on a scoped variable"),
    ];
    let (dsl, what) = bodies[i % bodies.len()];
    match load(dsl) {
        Err(p) => CaseOutcome::Fail(Failure::new(format!("C06:d16:{}", p.signature()), p.message, json!({"dsl": dsl}))),
        Ok(Err(_)) => CaseOutcome::Pass(CaseReport { fingerprint: fingerprint(&dsl), nontrivial: true, labels: vec!["d16-now-rejected".into()], counters: vec![], sample: Some(json!({"dsl": dsl})), evaluations: 1 }),
        Ok(Ok(_)) => CaseOutcome::Fail(Failure::new("C06:d16:shorthand-body-not-checked", format!("{} inside an attribute shorthand body is accepted at load time", what), json!({"dsl": dsl}))),
    }
}

pub fn case(tape: &[u32]) -> CaseOutcome {
    if tape.len() == 2 && tape[0] == D16_TAG {
        return pinned_d16(tape[1] as usize);
    }
    let (aux, main) = split_tape(tape);
    let mut t = Tape::new(&aux);
    let mut gt = Tape::new(&main);
    let mut cfg = GenCfg::full();
    cfg.gnode_text = true;
    cfg.force_globals = t.chance(1, 2);
    let gen = crate::gen::generate(&mut gt, &cfg);
    let mut base = gen.prog;
    // statically valid constructs the program generator avoids because they fail at run time
    // (nothing is executed here): sets as iteration sources, comprehensions over comprehensions
    if t.chance(1, 3) {
        let mut ids = Ids(5_000_000);
        let k = t.choose(6);
        let mut extra_before: Option<Stmt> = None;
        let one = |_ids: &mut Ids| Expr::List(vec![Expr::Int(1, 0)]);
        let set_comp = |ids: &mut Ids, elem: Expr| Expr::SetComp { id: ids.next(), elem: Box::new(elem), var_id: ids.next(), var: "dz_y".into(), src: Box::new(Expr::List(vec![Expr::Int(1, 0)])) };
        let stmt = match k {
            0 => Stmt::For { id: ids.next(), var_id: ids.next(), var: "dz_x".into(), value: set_comp(&mut ids, Expr::Int(1, 0)), body: vec![] },
            1 => Stmt::For { id: ids.next(), var_id: ids.next(), var: "dz_x".into(), value: set_comp(&mut ids, Expr::Call { func: "node".into(), args: vec![] }), body: vec![] },
            2 => Stmt::Let { id: ids.next(), var: VarRef::Plain { id: ids.next(), name: "dz_l".into() }, value: Expr::ListComp { id: ids.next(), elem: Box::new(Expr::Var { id: ids.next(), name: "dz_e".into() }), var_id: ids.next(), var: "dz_e".into(), src: Box::new(Expr::Set(vec![Expr::Int(2, 0)])) } },
            3 => Stmt::For { id: ids.next(), var_id: ids.next(), var: "dz_x".into(), value: Expr::ListComp { id: ids.next(), elem: Box::new(Expr::Str("s".into())), var_id: ids.next(), var: "dz_e".into(), src: Box::new(one(&mut ids)) }, body: vec![] },
            4 => Stmt::Scan { id: ids.next(), value: Expr::Call { func: "format".into(), args: vec![Expr::Str("{}".into()), Expr::Int(1, 0)] }, arms: vec![ScanArm { regex: "a".into(), body: vec![] }] },
            _ => {
                // an immutable local that shadows a mutable one of the enclosing block is local
                extra_before = Some(Stmt::Var { id: ids.next(), var: VarRef::Plain { id: ids.next(), name: "dz_s".into() }, value: Expr::Str("a".into()) });
                Stmt::If {
                    id: ids.next(),
                    arms: vec![IfArm {
                        id: ids.next(),
                        conds: vec![Cond::Bool(ids.next(), Expr::True)],
                        body: vec![
                            Stmt::Let { id: ids.next(), var: VarRef::Plain { id: ids.next(), name: "dz_s".into() }, value: Expr::Str("b".into()) },
                            Stmt::Scan { id: ids.next(), value: Expr::Var { id: ids.next(), name: "dz_s".into() }, arms: vec![ScanArm { regex: "x".into(), body: vec![] }] },
                        ],
                    }],
                }
            }
        };
        let n = base.items.iter().filter(|i| matches!(i, Item::Stanza(_))).count();
        if n > 0 {
            let pick = t.choose(n);
            let mut seen = 0;
            for it in base.items.iter_mut() {
                if let Item::Stanza(st) = it {
                    if seen == pick {
                        if let Some(b) = extra_before.clone() {
                            st.body.push(b);
                        }
                        st.body.push(stmt.clone());
                    }
                    seen += 1;
                }
            }
        }
    }
    // the valid program
    let base_violations = refcheck::check(&base);
    if !base_violations.is_empty() {
        return CaseOutcome::Discard("generator produced a program the reference checker rejects");
    }
    let inject_fault = t.chance(2, 3);
    let layout_random = t.chance(1, 3);
    if !inject_fault {
        let printed = if layout_random { print_random(&base, &mut t) } else { print_canonical(&base) };
        return match load(&printed.text) {
            Err(p) => CaseOutcome::Fail(Failure::new(format!("C06:{}", p.signature()), p.message, json!({"dsl": printed.text}))),
            Ok(Err(e)) => CaseOutcome::Fail(Failure::new(
                format!("C06:valid-rejected:{}", check_error_debug(&e).map(|d| d.0.split('(').next().unwrap_or("").to_string()).unwrap_or_else(|| "parse".into())),
                format!("a file that breaks no static rule was rejected: {}", e),
                json!({"dsl": printed.text, "diagnostic": format!("{}", e.display_pretty(std::path::Path::new("t.tsg"), &printed.text))}),
            )),
            Ok(Ok(_)) => {
                let mut depth = 0;
                for s in base.stanzas() {
                    walk_stmts(&s.body, 1, &mut |_, d| depth = depth.max(d));
                }
                CaseOutcome::Pass(CaseReport {
                    fingerprint: fingerprint(&printed.text),
                    nontrivial: depth >= 2,
                    labels: vec!["valid-accepted".into()],
                    counters: vec![],
                    sample: None,
                    evaluations: 1,
                })
            }
        };
    }
    let fault = FAULTS[t.choose(FAULTS.len())];
    let mut prog = base.clone();
    let max_id = {
        // continue id allocation above everything the generator used
        let printed = print_canonical(&base);
        printed.locs.keys().max().copied().unwrap_or(0) + 10_000
    };
    let mut inj = Inj { t: &mut t, ids: Ids(max_id), counter: 0 };
    let (rule, name) = match inject(&mut inj, &mut prog, fault) {
        Some(x) => x,
        None => return CaseOutcome::Discard("no eligible site for this fault"),
    };
    let violations = refcheck::check(&prog);
    if violations.len() != 1 || violations[0].rule != rule {
        return CaseOutcome::Discard("injection did not yield exactly one violation of the intended rule");
    }
    let v = &violations[0];
    let printed = if layout_random { print_random(&prog, &mut t) } else { print_canonical(&prog) };
    let dsl = &printed.text;
    let d = |extra: serde_json::Value| json!({"dsl": dsl, "fault": fault, "expected_rule": format!("{:?}", rule), "name": name, "more": extra});
    let err = match load(dsl) {
        Err(p) => return CaseOutcome::Fail(Failure::new(format!("C06:{}", p.signature()), p.message, d(json!({})))),
        Ok(Ok(_)) => {
            return CaseOutcome::Fail(Failure::new(format!("C06:accepted:{}", fault), format!("a file that breaks the rule {:?} ({}) was accepted", rule, fault), d(json!({}))));
        }
        Ok(Err(e)) => e,
    };
    let (dbg, loc) = match check_error_debug(&err) {
        Some(x) => x,
        None => return CaseOutcome::Fail(Failure::new(format!("C06:parse-error-instead:{}", fault), format!("expected a check error for {:?}, got the parse error {}", rule, err), d(json!({})))),
    };
    if !dbg.starts_with(rule.debug_prefix()) {
        return CaseOutcome::Fail(Failure::new(format!("C06:wrong-rule:{}", fault), format!("the file breaks {:?}; the loader reported {} ({})", rule, dbg, err), d(json!({}))));
    }
    let msg = format!("{}", err);
    if !name.is_empty() && rule != Rule::NullableRegex && !msg.contains(&name) {
        return CaseOutcome::Fail(Failure::new(format!("C06:name-missing:{}", fault), format!("the diagnostic `{}` does not name `{}`", msg, name), d(json!({}))));
    }
    if rule == Rule::UnusedCapture {
        // exactly the unused captures, nothing else
        // every unused capture is named, and no capture of the file that is used
        let listed: BTreeSet<String> = regex::Regex::new(r"@[A-Za-z_][A-Za-z0-9_-]*").unwrap().find_iter(msg.lines().next().unwrap_or("")).map(|m| m.as_str().to_string()).collect();
        let wanted: BTreeSet<String> = name.split_whitespace().map(|s| if s.starts_with('@') { s.to_string() } else { format!("@{}", s) }).collect();
        if listed != wanted {
            return CaseOutcome::Fail(Failure::new("C06:unused-capture-list", format!("the diagnostic `{}` does not list exactly `{}`", msg, name), d(json!({}))));
        }
    }
    let allowed: Vec<(usize, usize)> = v.at.iter().filter_map(|id| printed.locs.get(id)).map(|l| (l.row, l.col)).collect();
    match loc {
        Some(l) if allowed.contains(&l) => {}
        other => {
            return CaseOutcome::Fail(Failure::new(
                format!("C06:wrong-location:{}", fault),
                format!("{:?} reported at {:?}; the offending construct / its enclosing condition, comprehension, statement or stanza start at {:?}", rule, other, allowed),
                d(json!({"diagnostic": msg})),
            ));
        }
    }
    // the pretty diagnostic renders and shows the cited line
    match render_parse_error(&err, dsl) {
        Err(p) => return CaseOutcome::Fail(Failure::new(format!("C06:render-{}", p.signature()), p.message, d(json!({})))),
        Ok((_, pretty)) => {
            if let Some((row, _)) = loc {
                if let Some(line) = dsl.lines().nth(row) {
                    if !pretty.contains(line) {
                        return CaseOutcome::Fail(Failure::new("C06:pretty-misses-line", "display_pretty does not show the cited line".to_string(), d(json!({"pretty": pretty}))));
                    }
                }
            }
        }
    }
    CaseOutcome::Pass(CaseReport {
        fingerprint: fingerprint(dsl),
        nontrivial: v.depth >= 1 || dsl.contains("via_zz"),
        labels: vec![format!("fault:{}", fault), format!("depth:{}", v.depth.min(4)), format!("rule:{:?}:depth{}", rule, v.depth.min(3))],
        counters: vec![],
        sample: Some(json!({"fault": fault, "rule": format!("{:?}", rule), "depth": v.depth, "diagnostic": msg, "dsl": dsl})),
        evaluations: 1,
    })
}

pub fn spec(tier: &str) -> Spec {
    let mut s = Spec::new("C06", tier, 15_000, 200_000, 1500);
    s.rule = "a third of the cases: generated valid files (validity by construction, re-confirmed by the reference checker reporting nothing) must load; two thirds: the same files with exactly ONE violation injected from the catalogue (undefined / out-of-scope local, redefinition in a block, set of an immutable / undefined / global variable, hiding a global by let / var / node / for / comprehension variable, duplicate global, unused capture, undefined capture, scan / if (also elif, second condition) / for / comprehension source that depends on a scoped or mutable (also re-assigned) variable, some/none on a non-optional, for / comprehension over a non-list, nullable regex) at a random stanza, block (half of the time a nested one) and position, the offending value reaching the construct through 0-3 let bindings, calls or list literals; candidates for which the reference checker does not report exactly that one violation are discarded. A third are printed with a random layout. Oracle: Err(ParseError::Check(variant of the rule)), message naming the variable / capture, location in {first character of the offending token, of the enclosing condition / comprehension, of the enclosing statement, of the stanza}; display_pretty shows the cited line. Non-trivial: fault at block depth >= 1 or routed through >=1 binding; valid files with nesting >= 2. The labels give the rule x depth matrix. Distinct = fingerprint of the text.".into();
    s.assumptions = vec![
        "locality = does not depend on scoped or mutable variables; shape = declared / captured quantifier, `*` for list and set literals and comprehensions (the reference's rules)".into(),
        "shorthand bodies: known finding D16 (never checked by the library): no faults are placed there, pinned separately".into(),
    ];
    s
}

pub fn run_check(tier: &str) -> i32 {
    let started = std::time::Instant::now();
    let spec = spec(tier);
    let pinned: Vec<usize> = vec![0, 1, 2];
    let r0 = run_fixed(&spec, &pinned, |i| pinned_d16(*i), |i| vec![D16_TAG, *i as u32]);
    let result = merge_results(r0, run_tapes(&spec, case));
    finish(&spec, result, started)
}
