//! C11 — cancellation at any poll stops execution and surfaces as Cancelled
//! (exhaustive fault enumeration over the poll index k).

use super::common::*;
use crate::cval::observe;
use crate::engine::*;
use crate::gen::GenCfg;
use crate::interp::Outcome;
use crate::lib_api::*;
use crate::pysrc;
use crate::tree::TreeIndex;
use serde_json::json;
use std::cell::Cell;
use std::sync::atomic::{AtomicBool, AtomicU64, Ordering};
use std::sync::Arc;
use tree_sitter_graph::functions::{Function, Functions, Parameters};
use tree_sitter_graph::graph::{Graph, Value};
use tree_sitter_graph::{CancellationError, CancellationFlag, ExecutionConfig, ExecutionError, Identifier, NoCancellation};

struct Tick {
    cancelled: Arc<AtomicBool>,
    late: Arc<AtomicU64>,
    calls: Arc<AtomicU64>,
}

impl Function for Tick {
    fn call(&self, _graph: &mut Graph, _source: &str, parameters: &mut dyn Parameters) -> Result<Value, ExecutionError> {
        parameters.finish()?;
        self.calls.fetch_add(1, Ordering::Relaxed);
        if self.cancelled.load(Ordering::Relaxed) {
            self.late.fetch_add(1, Ordering::Relaxed);
        }
        Ok(Value::Integer(0))
    }
}

const FLAG_REASON: &str = "the harness flag signalled";

struct Flag {
    polls: Cell<u64>,
    /// polls per site label the library passes to `check`
    sites: std::cell::RefCell<std::collections::BTreeMap<&'static str, u64>>,
    fail_from: Option<u64>,
    cancelled: Arc<AtomicBool>,
    cap: u64,
}

impl CancellationFlag for Flag {
    fn check(&self, at: &'static str) -> Result<(), CancellationError> {
        let n = self.polls.get() + 1;
        self.polls.set(n);
        *self.sites.borrow_mut().entry(at).or_default() += 1;
        if let Some(k) = self.fail_from {
            if n >= k {
                self.cancelled.store(true, Ordering::Relaxed);
                // a reason of its own, not the site label: the error that comes back must be this one
                let _ = at;
                return Err(CancellationError(FLAG_REASON));
            }
        }
        if n > self.cap {
            return Err(CancellationError("poll bound exceeded"));
        }
        Ok(())
    }
}

fn poll_cap(tier_thorough: bool) -> u64 {
    if tier_thorough {
        2000
    } else {
        400
    }
}

pub fn case(tape: &[u32]) -> CaseOutcome {
    let thorough = std::env::var("VERIF_TIER").map(|t| t == "thorough").unwrap_or(false);
    let cap = poll_cap(thorough);
    let (aux, main) = split_tape(tape);
    let mut a = Tape::new(&aux);
    let mut t = Tape::new(&main);
    let mut cfg = GenCfg::fragment();
    cfg.tick = true;
    cfg.max_stanzas = 4;
    cfg.fault = a.chance(1, 6);
    let source = pysrc::gen_source(&mut a);
    cfg.scoped_heavy = a.chance(1, 2);
    let program = if a.chance(1, 4) {
        // scoped-variable scenarios: scopes reached through list elements and stored links
        let (prog, _) = super::c04::scenario(&mut t, false, 30);
        let printed = crate::dsl::print_canonical(&prog);
        Program { gen: crate::gen::Generated { prog, globals: Default::default(), features: Default::default(), fault: None, fault_id: None, fault_pair: None }, printed }
    } else {
        make_program(&mut t, &cfg)
    };
    let dsl = &program.printed.text;
    let file = match load_valid("C11", dsl) {
        Ok(f) => f,
        Err(o) => return o,
    };
    let tree = pysrc::parse(&source);
    let index = TreeIndex::new(&tree);
    let model = model_run(&program.gen.prog, &tree, &index, &source, &program.gen.globals, Default::default());
    let mut report = CaseReport::default();
    report.evaluations = 0;
    let mut labels = vec![];
    let mut nontrivial = false;
    let d = |extra| detail(dsl, &source, &program.gen.globals, extra);

    for lazy in [false, true] {
        let mode = if lazy { "lazy" } else { "strict" };
        let last_sites: std::cell::RefCell<std::collections::BTreeMap<&'static str, u64>> = Default::default();
        let exec = |fail_from: Option<u64>, use_flag: bool| -> Result<(Result<crate::cval::MGraph, String>, bool, u64, u64), LibPanic> {
            let cancelled = Arc::new(AtomicBool::new(false));
            let late = Arc::new(AtomicU64::new(0));
            let calls = Arc::new(AtomicU64::new(0));
            let mut functions = Functions::stdlib();
            functions.add(Identifier::from("tick"), Tick { cancelled: cancelled.clone(), late: late.clone(), calls: calls.clone() });
            let mut graph = Graph::new();
            let vars = variables_from(&program.gen.globals, &mut graph, &index);
            let config = ExecutionConfig::new(&functions, &vars).lazy(lazy);
            let flag = Flag { polls: Cell::new(0), sites: Default::default(), fail_from, cancelled: cancelled.clone(), cap: POLL_CAP };
            let r = call_lib(|| if use_flag { file.execute_into(&mut graph, &tree, &source, &config, &flag) } else { file.execute_into(&mut graph, &tree, &source, &config, &NoCancellation) })?;
            let (res, is_cancel) = match r {
                Ok(()) => (observe(&graph, &index).map_err(|e| format!("bad graph: {}", e)), false),
                Err(e) => {
                    // the cancellation error itself: the variant, carrying what the flag returned
                    let c = matches!(&e, ExecutionError::Cancelled(reason) if reason.0 == FLAG_REASON);
                    (Err(format!("{}", e)), c)
                }
            };
            *last_sites.borrow_mut() = flag.sites.borrow().clone();
            Ok((res, is_cancel, flag.polls.get(), late.load(Ordering::Relaxed)))
        };
        let fail_panic = |p: LibPanic| CaseOutcome::Fail(Failure::new(format!("C11:{}:{}", mode, p.signature()), p.message, d(json!({}))));
        // uncancelled run with a counting flag, and with NoCancellation
        let (r_count, _, n, _) = match exec(None, true) {
            Ok(x) => x,
            Err(p) => return fail_panic(p),
        };
        let sites = last_sites.borrow().clone();
        let (r_plain, _, _, _) = match exec(None, false) {
            Ok(x) => x,
            Err(p) => return fail_panic(p),
        };
        report.evaluations += 2;
        if n > POLL_CAP {
            report.counters.push(("inconclusive:poll-bound".into(), 1));
            continue;
        }
        if r_count != r_plain {
            return CaseOutcome::Fail(Failure::new(
                format!("C11:{}:flag-changes-result", mode),
                format!("a flag that never signals changes the result: {:?} vs {:?}", r_count.as_ref().map(|g| g.summary()), r_plain.as_ref().map(|g| g.summary())),
                d(json!({})),
            ));
        }
        if n > cap {
            report.counters.push((format!("skipped:{}-more-than-{}-polls", mode, cap), 1));
            continue;
        }
        // lower bound on polls from the reference interpreter's trace (successful runs only)
        if let (Outcome::Ok, Ok(_)) = (&model.outcome, &r_count) {
            let tr = &model.trace;
            let deferred = 0; // counted below for lazy
            let _ = deferred;
            let bound = if lazy {
                // per match, per executed statement, per attribute, per scan iteration
                tr.matches + tr.statements + tr.attributes + tr.scan_iterations
            } else {
                tr.statements + tr.attributes + tr.scan_iterations
            };
            // per clause, when the poll sites are the ones this reading of the property knows
            // (a site the harness has never seen switches the per-clause bounds off: counted)
            const KNOWN_SITES: [&str; 6] = ["executing statement", "executing attribute", "processing scan matches", "processing matches", "evaluating statement", "evaluating value"];
            if sites.keys().all(|k| KNOWN_SITES.contains(k)) {
                let at = |k: &str| sites.get(k).copied().unwrap_or(0);
                let mut clauses = vec![("executed statement", "executing statement", tr.statements), ("attribute", "executing attribute", tr.attributes), ("scan iteration", "processing scan matches", tr.scan_iterations)];
                if lazy {
                    clauses.push(("match", "processing matches", tr.matches));
                    // every value bound to a local variable is a deferred evaluation, forced at
                    // the latest when execution ends
                    clauses.push(("deferred evaluation", "evaluating value", tr.plain_defs));
                }
                for (what, site, need) in clauses {
                    if at(site) < need {
                        return CaseOutcome::Fail(Failure::new(
                            format!("C11:{}:too-few-polls-per-{}", mode, what.replace(' ', "-")),
                            format!("{} mode polled the flag {} times at `{}`; the run has {} {}s ({:?})", mode, at(site), site, need, what, sites),
                            d(json!({})),
                        ));
                    }
                }
            } else {
                report.counters.push(("per-clause-poll-bounds-skipped:unknown-poll-site".into(), 1));
            }
            if n < bound {
                return CaseOutcome::Fail(Failure::new(
                    format!("C11:{}:too-few-polls", mode),
                    format!("{} mode polled the flag {} times; the run executed {} statements, {} attributes, {} scan iterations{} (at least {} polls)", mode, n, tr.statements, tr.attributes, tr.scan_iterations, if lazy { format!(", {} matches", tr.matches) } else { String::new() }, bound),
                    d(json!({})),
                ));
            }
        }
        // every k
        for k in 1..=n {
            let (res, is_cancel, polls, late) = match exec(Some(k), true) {
                Ok(x) => x,
                Err(p) => return fail_panic(p),
            };
            report.evaluations += 1;
            let bad = |sig: &str, msg: String| CaseOutcome::Fail(Failure::new(format!("C11:{}:{}", mode, sig), msg, d(json!({"k": k, "total_polls": n, "mode": mode}))));
            match res {
                Ok(g) => return bad("not-cancelled", format!("flag signalled at poll {} of {}, execution still succeeded ({})", k, n, g.summary())),
                Err(msg) => {
                    if !is_cancel {
                        return bad("wrapped-or-other-error", format!("flag signalled at poll {} of {}, execution returned `{}` instead of the cancellation error itself", k, n, msg));
                    }
                }
            }
            if polls != k {
                return bad("polled-after-cancel", format!("flag signalled at poll {}, but it was polled {} times", k, polls));
            }
            if late > 0 {
                return bad("evaluated-after-cancel", format!("flag signalled at poll {}, but {} function call(s) were evaluated afterwards", k, late));
            }
        }
        let tr = &model.trace;
        if n >= 5 && (tr.loop_iterations > 0 || tr.scan_iterations > 0 || lazy) {
            nontrivial = true;
        }
        labels.push(format!("{}:polls:{}", mode, match n { 0 => "0", 1..=4 => "1-4", 5..=19 => "5-19", 20..=99 => "20-99", _ => "100+" }));
        if r_count.is_err() {
            labels.push(format!("{}:failing-run", mode));
        }
    }
    report.fingerprint = fingerprint(&(dsl, &source));
    report.nontrivial = nontrivial;
    report.labels = labels;
    report.sample = Some(json!({"dsl": dsl, "source": source}));
    CaseOutcome::Pass(report)
}

pub fn spec(tier: &str) -> Spec {
    let mut s = Spec::new("C11", tier, 3_000, 40_000, 900);
    s.level = "fault_enumeration";
    s.exhaustive = true;
    s.rule = "generated programs (order-insensitive fragment, loops, scans, shorthands, calls of a harness-registered (tick) function, a sixth with an injected run-time fault) x one tree x {strict, lazy}. Per pair: the uncancelled run is made with a counting flag (N polls) and with NoCancellation (results must be equal), N must reach the reference interpreter's count of executed statements + attributes + scan iterations (+ matches in lazy mode), and then for EVERY k = 1..N the run is repeated with a flag that fails from the k-th poll on: the result must be ExecutionError::Cancelled itself, exactly k polls must have been made and no (tick) call may be evaluated afterwards. Pairs with N above 400 (quick) / 2000 (thorough) polls are skipped and counted. evaluations = executions incl. every k; exhaustive refers to the k dimension of each explored pair. Non-trivial pair: N >= 5 and the run iterates a loop or scan or is lazy. Distinct = fingerprint of (DSL text, source).".into();
    s.assumptions = vec!["the counting flag and the tick function are harness code registered through the public API (CancellationFlag, Functions::add)".into()];
    s
}

pub fn run_check(tier: &str) -> i32 {
    std::env::set_var("VERIF_TIER", tier);
    let started = std::time::Instant::now();
    let spec = spec(tier);
    let result = run_tapes(&spec, case);
    finish(&spec, result, started)
}
