//! C08 — lazy evaluation does not depend on the order of stanzas (metamorphic: permute stanzas).

use super::common::*;
use crate::dsl::*;
use crate::engine::*;
use crate::gen::GenCfg;
use crate::lib_api::*;
use crate::pysrc;
use crate::tree::TreeIndex;
use serde_json::json;
use std::collections::{BTreeMap, BTreeSet};

fn permutations(n: usize) -> Vec<Vec<usize>> {
    fn rec(cur: &mut Vec<usize>, used: &mut Vec<bool>, n: usize, out: &mut Vec<Vec<usize>>) {
        if cur.len() == n {
            out.push(cur.clone());
            return;
        }
        for i in 0..n {
            if !used[i] {
                used[i] = true;
                cur.push(i);
                rec(cur, used, n, out);
                cur.pop();
                used[i] = false;
            }
        }
    }
    let mut out = vec![];
    rec(&mut vec![], &mut vec![false; n], n, &mut out);
    out
}

fn permuted(prog: &GProg, perm: &[usize]) -> GProg {
    let stanzas: Vec<&Item> = prog.items.iter().filter(|i| matches!(i, Item::Stanza(_))).collect();
    let mut k = 0;
    let items = prog
        .items
        .iter()
        .map(|it| match it {
            Item::Stanza(_) => {
                let s = stanzas[perm[k]].clone();
                k += 1;
                s
            }
            other => other.clone(),
        })
        .collect();
    GProg { items }
}

/// (scoped names defined, scoped names read, edges created?, edge attributes?) per stanza
fn dependencies(prog: &GProg) -> (bool, usize) {
    let mut defs: BTreeMap<String, BTreeSet<usize>> = BTreeMap::new();
    let mut reads: BTreeMap<String, BTreeSet<usize>> = BTreeMap::new();
    let mut edge_stanzas = BTreeSet::new();
    let mut edge_attr_stanzas = BTreeSet::new();
    for (si, st) in prog.stanzas().enumerate() {
        walk_stmts(&st.body, 0, &mut |s, _| {
            match s {
                Stmt::Let { var: VarRef::Scoped { name, .. }, .. } | Stmt::Var { var: VarRef::Scoped { name, .. }, .. } | Stmt::Node { var: VarRef::Scoped { name, .. }, .. } => {
                    defs.entry(name.clone()).or_default().insert(si);
                }
                Stmt::Edge { .. } => {
                    edge_stanzas.insert(si);
                }
                Stmt::AttrEdge { .. } => {
                    edge_attr_stanzas.insert(si);
                }
                _ => {}
            }
            for e in stmt_exprs(s) {
                walk_expr(e, &mut |x| {
                    if let Expr::Scoped { name, .. } = x {
                        reads.entry(name.clone()).or_default().insert(si);
                    }
                });
            }
        });
    }
    let mut cross = 0;
    for (name, ds) in &defs {
        if let Some(rs) = reads.get(name) {
            if ds.iter().any(|d| rs.iter().any(|r| r != d)) {
                cross += 1;
            }
        }
    }
    let edge_dep = edge_attr_stanzas.iter().any(|a| edge_stanzas.iter().any(|e| e != a));
    (cross > 0 || edge_dep, cross)
}

fn check_program(prog: &GProg, globals: &BTreeMap<String, crate::cval::CVal>, sources: &[String], max_exhaustive: usize, sampled: usize, t: &mut Tape, sig_prefix: &str) -> CaseOutcome {
    let n = prog.stanzas().count();
    let base_text = print_canonical(prog).text;
    let perms: Vec<Vec<usize>> = if n <= max_exhaustive {
        permutations(n)
    } else {
        // sampled permutations (always including the reversal)
        let mut out = vec![(0..n).collect::<Vec<_>>(), (0..n).rev().collect::<Vec<_>>()];
        for _ in 0..sampled {
            let mut p: Vec<usize> = (0..n).collect();
            for i in (1..n).rev() {
                let j = t.choose(i + 1);
                p.swap(i, j);
            }
            out.push(p);
        }
        out
    };
    let mut report = CaseReport::default();
    report.evaluations = 0;
    let base_file = match load(&base_text) {
        Err(p) => return CaseOutcome::Fail(Failure::new(format!("{}:load-{}", sig_prefix, p.signature()), p.message, json!({"dsl": base_text}))),
        Ok(Err(_)) => return CaseOutcome::Discard("generated program rejected by the loader"),
        Ok(Ok(f)) => f,
    };
    let mut both = (false, false);
    for source in sources {
        let tree = pysrc::parse(source);
        let index = TreeIndex::new(&tree);
        let (base, _) = run(&base_file, &tree, &index, source, globals, &ExecOpts { lazy: true, debug: None });
        report.evaluations += 1;
        if let LibRun::Panic(p) = &base {
            return CaseOutcome::Fail(Failure::new(format!("{}:{}", sig_prefix, p.signature()), p.message.clone(), json!({"dsl": base_text, "source": source})));
        }
        for perm in perms.iter().skip(1) {
            let text = print_canonical(&permuted(prog, perm)).text;
            let file = match load(&text) {
                Err(p) => return CaseOutcome::Fail(Failure::new(format!("{}:load-{}", sig_prefix, p.signature()), p.message, json!({"dsl": text}))),
                Ok(Err(e)) => {
                    return CaseOutcome::Fail(Failure::new(format!("{}:permutation-rejected", sig_prefix), format!("the file is accepted in its original order but rejected after reordering its stanzas: {}", e), json!({"original": base_text, "permuted": text, "permutation": perm})));
                }
                Ok(Ok(f)) => f,
            };
            let (actual, _) = run(&file, &tree, &index, source, globals, &ExecOpts { lazy: true, debug: None });
            report.evaluations += 1;
            let d = |extra: serde_json::Value| json!({"original": base_text, "permuted": text, "permutation": perm, "source": source, "globals": globals_json(globals), "more": extra});
            match (&base, &actual) {
                (_, LibRun::Panic(p)) => return CaseOutcome::Fail(Failure::new(format!("{}:{}", sig_prefix, p.signature()), p.message.clone(), d(json!({})))),
                (LibRun::Ok(a), LibRun::Ok(b)) => {
                    both.0 = true;
                    match compare_graphs(a, b, 0) {
                        Cmp::Same => {}
                        Cmp::Inconclusive => report.counters.push(("inconclusive:isomorphism-budget".into(), 1)),
                        Cmp::Different(why) => {
                            return CaseOutcome::Fail(Failure::new(format!("{}:graph-depends-on-order", sig_prefix), format!("reordering the stanzas changes the lazy result graph: {}", why), d(json!({"original_graph": a.to_json(), "permuted_graph": b.to_json()}))));
                        }
                    }
                }
                (LibRun::Err(_), LibRun::Err(_)) => both.1 = true,
                (LibRun::Ok(a), LibRun::Err(e)) => {
                    return CaseOutcome::Fail(Failure::new(
                        format!("{}:fails-after-reordering:{}", sig_prefix, variant_name(root_cause(e))),
                        format!("lazy execution succeeds in file order ({}) and fails after reordering the stanzas: {}", a.summary(), e),
                        d(json!({})),
                    ));
                }
                (LibRun::Err(e), LibRun::Ok(b)) => {
                    return CaseOutcome::Fail(Failure::new(
                        format!("{}:succeeds-after-reordering:{}", sig_prefix, variant_name(root_cause(e))),
                        format!("lazy execution fails in file order ({}) and succeeds after reordering the stanzas ({})", e, b.summary()),
                        d(json!({})),
                    ));
                }
                (LibRun::PollBound(_), _) | (_, LibRun::PollBound(_)) => {
                    // long runs are C05's and C10's business: not compared here
                    report.counters.push(("inconclusive:poll-bound".into(), 1));
                }
                _ => return CaseOutcome::Fail(Failure::new(format!("{}:bad-run", sig_prefix), "inconsistent graph".to_string(), d(json!({})))),
            }
        }
    }
    let (dep, cross) = dependencies(prog);
    let mut labels = vec![format!("stanzas:{}", n), format!("permutations:{}", perms.len())];
    if dep {
        labels.push("cross-stanza-dependency".into());
    }
    if cross >= 2 {
        labels.push(">=2-cross-stanza-scoped-names".into());
    }
    if both.0 {
        labels.push("ok-runs".into());
    }
    if both.1 {
        labels.push("failing-runs".into());
    }
    report.fingerprint = fingerprint(&(&base_text, sources));
    report.nontrivial = dep && n >= 2 && both.0;
    report.labels = labels;
    report.sample = Some(json!({"dsl": base_text, "sources": sources, "permutations": perms.len()}));
    CaseOutcome::Pass(report)
}

const D16_TAG: u32 = 0xFFFF_FF16;

/// Known finding D16: a comprehension inside a shorthand forces its scoped argument while the
/// matches are still being collected.
fn pinned_d16() -> CaseOutcome {
    let mut ids = Ids::default();
    let sh = Item::Shorthand {
        id: ids.next(),
        name: "sh".into(),
        var_id: ids.next(),
        var: "v".into(),
        attrs: vec![Attr { name: "items".into(), value: Some(Expr::ListComp { id: ids.next(), elem: Box::new(Expr::Var { id: ids.next(), name: "x".into() }), var_id: ids.next(), var: "x".into(), src: Box::new(Expr::Var { id: ids.next(), name: "v".into() }) }) }],
    };
    let m = |ids: &mut Ids| Expr::Capture { id: ids.next(), name: "m".into() };
    let definer = Item::Stanza(Stanza {
        id: ids.next(),
        query: "(module) @m".into(),
        captures: vec![Cap { name: "m".into(), quant: Quant::One }],
        body: vec![Stmt::Let { id: ids.next(), var: VarRef::Scoped { id: ids.next(), scope: m(&mut ids), name: "list".into() }, value: Expr::List(vec![Expr::Int(1, 0), Expr::Int(2, 0)]) }],
        pool: usize::MAX,
    });
    let user = Item::Stanza(Stanza {
        id: ids.next(),
        query: "(module) @m".into(),
        captures: vec![Cap { name: "m".into(), quant: Quant::One }],
        body: vec![
            Stmt::Node { id: ids.next(), var: VarRef::Scoped { id: ids.next(), scope: m(&mut ids), name: "n".into() } },
            Stmt::AttrNode {
                id: ids.next(),
                node: Expr::Scoped { id: ids.next(), scope: Box::new(m(&mut ids)), name: "n".into() },
                attrs: vec![Attr { name: "sh".into(), value: Some(Expr::Scoped { id: ids.next(), scope: Box::new(m(&mut ids)), name: "list".into() }) }],
            },
        ],
        pool: usize::MAX,
    });
    let prog = GProg { items: vec![sh, definer, user] };
    let words = [0u32; 4];
    let mut t = Tape::new(&words);
    check_program(&prog, &BTreeMap::new(), &["pass\n".to_string()], 5, 0, &mut t, "C08:d16")
}

pub fn case(tape: &[u32]) -> CaseOutcome {
    if tape.len() == 2 && tape[0] == D16_TAG {
        return pinned_d16();
    }
    let thorough = std::env::var("VERIF_TIER").map(|t| t == "thorough").unwrap_or(false);
    let (aux, main) = split_tape(tape);
    let mut a = Tape::new(&aux);
    let mut t = Tape::new(&main);
    let which = a.choose(4);
    let sources = pick_sources(&mut a, 1);
    let (prog, globals) = if which == 0 {
        let (p, _) = super::c04::scenario(&mut t, false, 5);
        (p, BTreeMap::new())
    } else {
        let mut cfg = if which == 1 { GenCfg::full() } else { GenCfg::fragment() };
        cfg.scoped_heavy = a.chance(1, 2);
        cfg.collisions = a.chance(1, 3);
        cfg.max_stanzas = if thorough { 8 } else { 5 };
        cfg.max_stmts = 3;
        cfg.prints = a.chance(1, 2);
        cfg.fault = a.chance(1, 8);
        let g = crate::gen::generate(&mut t, &cfg);
        (g.prog, g.globals)
    };
    if prog.stanzas().count() < 2 {
        return CaseOutcome::Discard("fewer than two stanzas");
    }
    check_program(&prog, &globals, &sources, if thorough { 5 } else { 4 }, if thorough { 60 } else { 12 }, &mut a, "C08")
}

pub fn spec(tier: &str) -> Spec {
    let mut s = Spec::new("C08", tier, 1_500, 12_000, 1200);
    s.rule = "accepted files of 2-8 stanzas (a quarter scoped-variable scenarios with definers and readers in separate stanzas, half programs of the order-insensitive fragment, a quarter unrestricted programs; graph nodes never rendered to text), executed lazily in file order and under ALL n! stanza permutations for n <= 4 (quick) / n <= 5 (thorough), and under the reversal plus 12 / 60 sampled permutations beyond; global / inherit / shorthand items keep their place. Oracle: same Ok/Err as the file order and, on Ok, isomorphic graphs. evaluations = lazy executions. Non-trivial: >=1 cross-stanza dependency (scoped name defined in one stanza and read in another, or an edge and its attributes in different stanzas) and a successful run. Distinct = fingerprint of (DSL text, source).".into();
    s.assumptions = vec!["known finding D16 (comprehension inside a shorthand over a scoped argument) is excluded by construction and pinned separately".into()];
    s
}

pub fn run_check(tier: &str) -> i32 {
    std::env::set_var("VERIF_TIER", tier);
    let started = std::time::Instant::now();
    let spec = spec(tier);
    let r0 = run_fixed(&spec, &[0usize], |_| pinned_d16(), |_| vec![D16_TAG, 0]);
    let result = merge_results(r0, run_tapes(&spec, case));
    finish(&spec, result, started)
}
