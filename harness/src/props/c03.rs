//! C03 — each query match runs its stanza exactly once with correctly bound captures
//! (independent recomputation with tree-sitter, two observation channels).

use super::common::*;
use crate::cval::{CVal, MGraph, MNode};
use crate::dsl::*;
use crate::engine::*;
use crate::interp::{stanza_matches, RefMatch};
use crate::lib_api::*;
use crate::pool::{self, D7_POOL, POOL};
use crate::pysrc;
use crate::tree::TreeIndex;
use serde_json::json;
use std::collections::BTreeMap;
use tree_sitter::CaptureQuantifier;
use tree_sitter_graph::ast::File;

const NAMES: &[&str] = &["x", "y", "n", "xs", "a", "item", "_u", "some_x"];

struct Probe {
    prog: GProg,
    printed: Printed,
}

fn build_probe(t: &mut Tape, d7: Option<usize>) -> Option<Probe> {
    let mut ids = Ids::default();
    let nst = 2 + t.choose(7);
    let mut items = vec![];
    // a small name set shared by all stanzas, so that names recur with different quantifiers
    let shared: Vec<&str> = {
        let k = 2 + t.choose(3);
        (0..k).map(|_| NAMES[t.choose(NAMES.len())]).collect()
    };
    for si in 0..nst {
        let entry = match d7 {
            Some(i) if si == 0 => &D7_POOL[i],
            _ => &POOL[t.choose(POOL.len())],
        };
        let mut names: Vec<(&str, String)> = vec![];
        for (ph, _) in entry.caps {
            let mut name = if t.chance(3, 4) { shared[t.choose(shared.len())].to_string() } else { ph.to_string() };
            while names.iter().any(|(_, n)| n == &name) {
                name.push('2');
            }
            names.push((ph, name));
        }
        let query = pool::instantiate(entry.pattern, &names);
        let cq = pool::compile(&query)?;
        let mut attrs = vec![Attr { name: "stanza".into(), value: Some(Expr::Str(format!("{}", si))) }];
        let mut captures = cq.captures.clone();
        let mut query = query;
        for c in cq.captures.iter() {
            if c.name.starts_with('_') && t.chance(1, 2) {
                continue; // explicitly unused
            }
            if t.chance(1, 10) && !c.name.starts_with('_') {
                // leave it unused: needs the `_` prefix
                let new = format!("_{}", c.name);
                query = query.replace(&format!("@{}", c.name), &format!("@{}", new));
                for cap in captures.iter_mut() {
                    if cap.name == c.name {
                        cap.name = new.clone();
                    }
                }
                continue;
            }
            attrs.push(Attr { name: format!("c_{}", c.name.replace('-', "_")), value: Some(Expr::Capture { id: ids.next(), name: c.name.clone() }) });
        }
        // renaming by plain replace could touch a longer name: verify the final text
        let check = pool::compile(&query)?;
        if check.captures != captures {
            return None;
        }
        // the captures are read at the top of the block or inside a nested block
        let record = Stmt::AttrNode { id: ids.next(), node: Expr::Var { id: ids.next(), name: "n".into() }, attrs };
        let record = match t.weighted(&[3, 1, 1, 1]) {
            0 => record,
            1 => Stmt::If { id: ids.next(), arms: vec![IfArm { id: ids.next(), conds: vec![Cond::Bool(ids.next(), Expr::True)], body: vec![record] }] },
            2 => Stmt::If { id: ids.next(), arms: vec![IfArm { id: ids.next(), conds: vec![Cond::Bool(ids.next(), Expr::False)], body: vec![] }, IfArm { id: ids.next(), conds: vec![], body: vec![record] }] },
            _ => Stmt::For { id: ids.next(), var_id: ids.next(), var: "once".into(), value: Expr::List(vec![Expr::Int(1, 0)]), body: vec![record] },
        };
        let mut body = vec![Stmt::Node { id: ids.next(), var: VarRef::Plain { id: ids.next(), name: "n".into() } }, record];
        // a stanza without captures may have an empty block: its matches are still visited
        if captures.is_empty() && t.chance(1, 2) {
            body.clear();
        }
        items.push(Item::Stanza(Stanza { id: ids.next(), query, captures, body, pool: 0 }));
    }
    let prog = GProg { items };
    let printed = if t.chance(1, 2) { print_canonical(&prog) } else { print_random(&prog, t) };
    Some(Probe { prog, printed })
}

/// The recording `attr` statement of a probe stanza, possibly inside one nested block.
fn probe_attrs(s: &Stmt) -> Option<&Vec<Attr>> {
    match s {
        Stmt::AttrNode { attrs, .. } => Some(attrs),
        Stmt::If { arms, .. } => arms.iter().flat_map(|a| a.body.iter()).find_map(probe_attrs),
        Stmt::For { body, .. } => body.iter().find_map(probe_attrs),
        _ => None,
    }
}

type Seen = Vec<(usize, Vec<(String, Quant, Vec<usize>)>)>;

fn expected_seen(stanza: &Stanza, matches: &[RefMatch]) -> Seen {
    let mut out: Seen = matches
        .iter()
        .map(|m| {
            let mut caps: Vec<(String, Quant, Vec<usize>)> = stanza.captures.iter().map(|c| (c.name.clone(), c.quant, m.nodes.get(&c.name).cloned().unwrap_or_default())).collect();
            caps.sort();
            (m.root.unwrap_or(usize::MAX), caps)
        })
        .collect();
    out.sort();
    out
}

fn quant_of(q: CaptureQuantifier) -> Option<Quant> {
    pool::quant_of(q)
}

/// What the library's match visitor reports, grouped by stanza location.
fn visit(file: &File, tree: &tree_sitter::Tree, index: &TreeIndex, source: &str, lazy: bool) -> Result<BTreeMap<(usize, usize), Seen>, LibPanic> {
    call_lib(|| {
        let mut out: BTreeMap<(usize, usize), Seen> = BTreeMap::new();
        let _ = file.try_visit_matches::<(), _>(tree, source, lazy, |m| {
            let loc = m.query_location();
            let root = index.pre_of(&m.full_capture()).unwrap_or(usize::MAX);
            let mut caps = vec![];
            for (name, q, nodes) in m.named_captures() {
                let ns: Vec<usize> = nodes.map(|n| index.pre_of(&n).unwrap_or(usize::MAX)).collect();
                caps.push((name.to_string(), quant_of(q).unwrap_or(Quant::One), ns));
            }
            caps.sort();
            out.entry((loc.row, loc.column)).or_default().push((root, caps));
            Ok(())
        });
        for v in out.values_mut() {
            v.sort();
        }
        out
    })
}

fn visit_stanzas(file: &File, tree: &tree_sitter::Tree, index: &TreeIndex, source: &str) -> Result<BTreeMap<(usize, usize), Seen>, LibPanic> {
    call_lib(|| {
        let mut out: BTreeMap<(usize, usize), Seen> = BTreeMap::new();
        for stanza in &file.stanzas {
            let _ = stanza.try_visit_matches::<(), _>(tree, source, |m| {
                let loc = m.query_location();
                let root = index.pre_of(&m.full_capture()).unwrap_or(usize::MAX);
                let mut caps = vec![];
                for name in m.capture_names().map(|s| s.to_string()).collect::<Vec<_>>() {
                    if let Some((q, nodes)) = m.named_capture(&name) {
                        let ns: Vec<usize> = nodes.map(|n| index.pre_of(&n).unwrap_or(usize::MAX)).collect();
                        caps.push((name.clone(), quant_of(q).unwrap_or(Quant::One), ns));
                    }
                }
                caps.sort();
                out.entry((loc.row, loc.column)).or_default().push((root, caps));
                Ok(())
            });
        }
        for v in out.values_mut() {
            v.sort();
        }
        out
    })
}

fn check(probe: &Probe, sources: &[String], id_prefix: &str) -> CaseOutcome {
    let dsl = &probe.printed.text;
    let file = match load(dsl) {
        Err(p) => return CaseOutcome::Fail(Failure::new(format!("C03:load-{}", p.signature()), p.message, json!({"dsl": dsl}))),
        Ok(Err(e)) => {
            if std::env::var("VERIF_DEBUG").is_ok() {
                note(&format!("REJECTED: {}\n{}", e, dsl));
            }
            return CaseOutcome::Discard("probe file rejected by the loader");
        }
        Ok(Ok(f)) => f,
    };
    let stanzas: Vec<&Stanza> = probe.prog.stanzas().collect();
    let mut report = CaseReport::default();
    report.evaluations = 0;
    let mut multi_match_stanzas = 0;
    for source in sources {
        let tree = pysrc::parse(source);
        let index = TreeIndex::new(&tree);
        let d = |extra: serde_json::Value| json!({"dsl": dsl, "source": source, "more": extra});
        // reference: per stanza, the matches of its own pattern
        let mut expected: BTreeMap<(usize, usize), Seen> = BTreeMap::new();
        let mut model = MGraph::default();
        let mut inconclusive = false;
        multi_match_stanzas = 0;
        for (si, st) in stanzas.iter().enumerate() {
            let ms = match stanza_matches(st, &tree, &index, source) {
                Ok(m) => m,
                Err(why) => {
                    report.counters.push((format!("inconclusive:{}", why.split(' ').take(4).collect::<Vec<_>>().join(" ")), 1));
                    inconclusive = true;
                    break;
                }
            };
            if ms.len() >= 2 {
                multi_match_stanzas += 1;
            }
            let loc = probe.printed.locs[&st.id];
            let seen = expected_seen(st, &ms);
            if !seen.is_empty() {
                expected.insert((loc.row, loc.col), seen);
            }
            for m in &ms {
                let mut node = MNode::default();
                node.attrs.insert("stanza".into(), CVal::Str(format!("{}", si)));
                if st.body.is_empty() {
                    continue;
                }
                if let Some(attrs) = probe_attrs(&st.body[1]) {
                    for a in attrs.iter().skip(1) {
                        if let Some(Expr::Capture { name, .. }) = &a.value {
                            node.attrs.insert(a.name.clone(), m.caps.get(name).cloned().unwrap_or(CVal::Null));
                        }
                    }
                }
                model.nodes.push(node);
            }
        }
        if inconclusive {
            continue;
        }
        // channel (a): the public match visitors
        for lazy in [false, true] {
            let got = match visit(&file, &tree, &index, source, lazy) {
                Ok(g) => g,
                Err(p) => {
                    let sig = if p.message.contains("missing full capture") { format!("{}:visit:missing-full-capture", id_prefix) } else { format!("{}:visit:{}", id_prefix, p.signature()) };
                    return CaseOutcome::Fail(Failure::new(sig, format!("try_visit_matches(lazy={}) panicked: {}", lazy, p.message), d(json!({}))));
                }
            };
            report.evaluations += 1;
            if got != expected {
                let first = expected.keys().chain(got.keys()).find(|k| expected.get(k) != got.get(k)).cloned();
                return CaseOutcome::Fail(Failure::new(
                    format!("{}:visit-differs:lazy={}", id_prefix, lazy),
                    format!("File::try_visit_matches(lazy={}) reports other matches / captures than tree-sitter gives for the stanza at {:?}", lazy, first),
                    d(json!({"expected": format!("{:?}", first.as_ref().and_then(|k| expected.get(k))), "reported": format!("{:?}", first.as_ref().and_then(|k| got.get(k)))})),
                ));
            }
        }
        match visit_stanzas(&file, &tree, &index, source) {
            Ok(got) => {
                report.evaluations += 1;
                if got != expected {
                    return CaseOutcome::Fail(Failure::new(format!("{}:stanza-visit-differs", id_prefix), "Stanza::try_visit_matches reports other matches / captures than tree-sitter gives".to_string(), d(json!({}))));
                }
            }
            Err(p) => return CaseOutcome::Fail(Failure::new(format!("{}:stanza-visit:{}", id_prefix, p.signature()), p.message, d(json!({})))),
        }
        // channel (b): executing the probe file
        let globals = BTreeMap::new();
        for lazy in [false, true] {
            let mode = if lazy { "lazy" } else { "strict" };
            let (actual, _) = run(&file, &tree, &index, source, &globals, &ExecOpts { lazy, debug: None });
            report.evaluations += 1;
            match actual {
                LibRun::Ok(g) => match compare_graphs(&model, &g, 0) {
                    Cmp::Same => {}
                    Cmp::Inconclusive => report.counters.push(("inconclusive:isomorphism-budget".into(), 1)),
                    Cmp::Different(why) => {
                        return CaseOutcome::Fail(Failure::new(
                            format!("{}:{}:probe-graph-differs", id_prefix, mode),
                            format!("{} execution did not run every stanza once per match with the right capture values: {} (expected {} probe nodes, got {})", mode, why, model.nodes.len(), g.nodes.len()),
                            d(json!({"expected_graph": model.to_json(), "actual_graph": g.to_json()})),
                        ));
                    }
                },
                LibRun::Err(e) => {
                    return CaseOutcome::Fail(Failure::new(format!("{}:{}:error:{}", id_prefix, mode, variant_name(root_cause(&e))), format!("{} execution of a probe file failed: {}", mode, e), d(json!({}))));
                }
                LibRun::Panic(p) => return CaseOutcome::Fail(Failure::new(format!("{}:{}:{}", id_prefix, mode, p.signature()), p.message, d(json!({})))),
                LibRun::PollBound(_) | LibRun::BadGraph(_) => return CaseOutcome::Fail(Failure::new(format!("{}:{}:bad-run", id_prefix, mode), "poll bound or inconsistent graph".to_string(), d(json!({})))),
            }
        }
    }
    // shared names with different quantifier or position
    let mut by_name: BTreeMap<&str, Vec<(Quant, usize)>> = BTreeMap::new();
    for st in &stanzas {
        for (i, c) in st.captures.iter().enumerate() {
            by_name.entry(c.name.as_str()).or_default().push((c.quant, i));
        }
    }
    let shared_differently = by_name.values().any(|v| v.len() >= 2 && v.iter().any(|x| x != &v[0]));
    let mut labels = vec![];
    if shared_differently {
        labels.push("shared-name-different-quantifier-or-index".to_string());
    }
    if multi_match_stanzas >= 2 {
        labels.push(">=2-stanzas-with->=2-matches".into());
    }
    if sources.iter().any(|s| pysrc::parse(s).root_node().has_error()) {
        labels.push("error-tree".into());
    }
    report.fingerprint = fingerprint(&(dsl, sources));
    report.nontrivial = shared_differently && multi_match_stanzas >= 2;
    report.labels = labels;
    report.sample = Some(json!({"dsl": dsl, "sources": sources}));
    CaseOutcome::Pass(report)
}

const D7_TAG: u32 = 0xFFFF_FF07;

pub fn case(tape: &[u32]) -> CaseOutcome {
    if tape.len() == 2 && tape[0] == D7_TAG {
        return pinned_d7(tape[1] as usize);
    }
    let mut t = Tape::new(tape);
    let probe = match build_probe(&mut t, None) {
        Some(p) => p,
        None => return CaseOutcome::Discard("query did not compile"),
    };
    let n = 1 + t.choose(3);
    let sources: Vec<String> = (0..n)
        .map(|_| {
            let s = pysrc::gen_source(&mut t);
            if t.chance(1, 3) {
                let k = 1 + t.choose(2);
                pysrc::inject_faults(&mut t, &s, k)
            } else {
                s
            }
        })
        .collect();
    check(&probe, &sources, "C03")
}

/// Pinned inputs of the known finding D7 (root pattern with three user captures / quantified root).
fn pinned_d7(i: usize) -> CaseOutcome {
    let words = [7u32 << 24; 64];
    let mut t = Tape::new(&words);
    let probe = match build_probe(&mut t, Some(i % D7_POOL.len())) {
        Some(p) => p,
        None => return CaseOutcome::Discard("query did not compile"),
    };
    check(&probe, &["pass\n".to_string(), "a\nb\n".to_string()], "C03:d7")
}

pub fn spec(tier: &str) -> Spec {
    let mut s = Spec::new("C03", tier, 3_000, 40_000, 500);
    s.rule = "probe files of 2-8 stanzas from the query pool (fields, wildcards, alternations, anchors, text predicates, ?, *, + captures, multi-line queries with comments), capture names drawn from a small shared set so that names recur with different quantifiers and positions, `_`-prefixed unused captures; every block records its stanza number and every capture in a fresh node. 1-3 trees per file, a third with injected syntax errors. Oracle: per stanza, the harness compiles the pattern as written (own Query / QueryCursor) and lists every match with its captures by name; File::try_visit_matches(lazy = false | true) and Stanza::try_visit_matches must report exactly that multiset (root node, name, quantifier, nodes), and executing the file in each mode must give exactly one probe node per match with plain capture = node, ? = node or null, * / + = list in order. evaluations = visitor calls + executions. Non-trivial: >=2 stanzas share a capture name with a different quantifier or capture index and >=2 stanzas have >=2 matches. Distinct = fingerprint of (DSL text, sources).".into();
    s.assumptions = vec![
        "if adding a root capture changes what tree-sitter reports for a pattern the case is inconclusive (premise ambiguous)".into(),
        "root patterns with >=3 captures or a quantified root are the known finding D7: not generated, pinned separately".into(),
    ];
    s
}

pub fn run_check(tier: &str) -> i32 {
    let started = std::time::Instant::now();
    let spec = spec(tier);
    let pinned: Vec<usize> = (0..D7_POOL.len()).collect();
    let r0 = run_fixed(&spec, &pinned, |i| pinned_d7(*i), |i| vec![D7_TAG, *i as u32]);
    let result = merge_results(r0, run_tapes(&spec, case));
    finish(&spec, result, started)
}
