//! C01 — execution yields exactly the graph the language reference prescribes
//! (reference-model differential, strict mode).

use super::common::*;
use crate::engine::*;
use crate::gen::GenCfg;
use crate::interp::Outcome;
use crate::lib_api::*;
use crate::pysrc;
use crate::tree::TreeIndex;
use serde_json::json;

pub fn case(tape: &[u32]) -> CaseOutcome {
    let (aux, main) = split_tape(tape);
    let mut a = Tape::new(&aux);
    let mut t = Tape::new(&main);
    let mut cfg = GenCfg::full();
    cfg.fault = a.chance(1, 3);
    cfg.gnode_text = true;
    let sources = pick_sources(&mut a, 3);
    let program = make_program(&mut t, &cfg);
    let dsl = &program.printed.text;
    let file = match load_valid("C01", dsl) {
        Ok(f) => f,
        Err(o) => return o,
    };
    let mut report = CaseReport::default();
    report.evaluations = 0;
    let mut labels = vec![];
    let mut nontrivial = false;
    for source in &sources {
        let tree = pysrc::parse(source);
        let index = TreeIndex::new(&tree);
        let model = model_run(&program.gen.prog, &tree, &index, source, &program.gen.globals, Default::default());
        let (actual, _polls) = run_capped(&file, &tree, &index, source, &program.gen.globals, &ExecOpts::default(), model.poll_cap());
        report.evaluations += 1;
        let d = |extra| detail(dsl, source, &program.gen.globals, extra);
        match (&model.outcome, &actual) {
            (Outcome::Inconclusive(why), _) => {
                report.counters.push((format!("inconclusive:{}", why.split(':').next().unwrap_or("")), 1));
                continue;
            }
            (_, LibRun::Panic(p)) => {
                return CaseOutcome::Fail(Failure::new(format!("C01:{}", p.signature()), format!("strict execution panicked: {}", p.message), d(json!({}))));
            }
            (Outcome::Err(_), LibRun::PollBound(_)) => {
                report.counters.push(("inconclusive:poll-bound-next-to-failing-reference-run".into(), 1));
                continue;
            }
            (_, LibRun::PollBound(n)) => {
                return CaseOutcome::Fail(Failure::new("C01:poll-bound", format!("execution polled the cancellation flag {} times without finishing", n), d(json!({}))));
            }
            (_, LibRun::BadGraph(why)) => {
                return CaseOutcome::Fail(Failure::new("C01:bad-graph", format!("result graph is inconsistent: {}", why), d(json!({}))));
            }
            (Outcome::Ok, LibRun::Err(e)) => {
                return CaseOutcome::Fail(Failure::new(
                    format!("C01:unexpected-error:{}", variant_name(root_cause(e))),
                    format!("the reference rules give a graph ({}), execution failed: {}", model.graph.summary(), e),
                    d(json!({"expected_graph": model.graph.to_json()})),
                ));
            }
            (Outcome::Err(re), LibRun::Ok(g)) => {
                return CaseOutcome::Fail(Failure::new(
                    format!("C01:missing-error:{:?}", re.kind),
                    format!("the reference rules make this run fail ({:?}: {}), execution returned a graph ({})", re.kind, re.msg, g.summary()),
                    d(json!({"expected_error": rerr_json(re), "actual_graph": g.to_json()})),
                ));
            }
            (Outcome::Err(re), LibRun::Err(_)) => {
                labels.push(format!("err:{:?}", re.kind));
            }
            (Outcome::Ok, LibRun::Ok(g)) => match compare_graphs(&model.graph, g, 0) {
                Cmp::Same => {
                    labels.push("ok".to_string());
                }
                Cmp::Inconclusive => report.counters.push(("inconclusive:isomorphism-budget".into(), 1)),
                Cmp::Different(why) => {
                    return CaseOutcome::Fail(Failure::new(
                        "C01:graph-differs",
                        format!("execution returned a graph that differs from the reference semantics: {}", why),
                        d(json!({"expected_graph": model.graph.to_json(), "actual_graph": g.to_json()})),
                    ));
                }
            },
        }
        let stanzas = program.gen.prog.stanzas().count();
        if model.trace.matches >= 1 && (model.graph.nodes.len() >= 2 || model.graph.edge_count() >= 1) && (stanzas >= 2 || max_block_depth(&program.gen.prog) >= 2) {
            nontrivial = true;
        }
        labels.push(format!("executed-statements:{}", match model.trace.statements { 0 => "0", 1..=4 => "1-4", 5..=19 => "5-19", 20..=99 => "20-99", _ => "100+" }));
        if model.trace.scoped_reads > 0 {
            labels.push("scoped-read-executed".into());
        }
        if model.trace.scoped_inherited_reads > 0 {
            labels.push("inherited-read-executed".into());
        }
        if model.trace.arm_runs > 0 {
            labels.push("scan-arm-executed".into());
        }
        if model.trace.shorthand_expansions > 0 {
            labels.push("shorthand-expanded".into());
        }
        if model.trace.loop_iterations > 0 {
            labels.push("loop-iterated".into());
        }
        if model.trace.max_depth >= 3 {
            labels.push("depth>=3-executed".into());
        }
        if model.trace.matches >= 2 {
            labels.push("multi-match".into());
        }
    }
    for f in &program.gen.features {
        labels.push(format!("feat:{}", f));
    }
    if let Some(f) = program.gen.fault {
        labels.push(format!("fault:{}", f));
    }
    labels.sort();
    labels.dedup();
    report.fingerprint = fingerprint(&(dsl, &sources));
    report.nontrivial = nontrivial;
    report.labels = labels;
    report.sample = Some(json!({"dsl": dsl, "sources": sources, "globals": globals_json(&program.gen.globals)}));
    CaseOutcome::Pass(report)
}

pub fn spec(tier: &str) -> Spec {
    let mut s = Spec::new("C01", tier, 4_000, 60_000, 1200);
    s.rule = "programs generated over the whole statement/expression grammar (1-8 stanzas, blocks to depth 4, shorthands, globals, one injected run-time fault in a third of them), each executed in strict mode on 1-3 generated/corpus Python trees and compared with an independent reference interpreter (Ok/Err agreement; graphs compared up to node renumbering). Non-trivial: >=1 match executed, >=2 graph nodes or >=1 edge, and >=2 stanzas or block depth >=2. Distinct = fingerprint of (DSL text, sources).".into();
    s.assumptions = vec![
        "tree-sitter's query matching and the regex crate are shared with the implementation (trusted)".into(),
        "the reference interpreter in harness/src/interp.rs is the oracle; constructs the reference leaves open are not generated (DESIGN.md §4)".into(),
    ];
    s
}

pub fn run_check(tier: &str) -> i32 {
    let started = std::time::Instant::now();
    let spec = spec(tier);
    let result = run_tapes(&spec, case);
    finish(&spec, result, started)
}
