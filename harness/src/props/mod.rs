pub mod common;
pub mod c01;
pub mod c02;
pub mod c17;

use crate::engine::CaseOutcome;

pub struct PropEntry {
    pub id: &'static str,
    pub run: fn(&str) -> i32,
    pub case: fn(&[u32]) -> CaseOutcome,
}

pub const PROPS: &[PropEntry] = &[
    PropEntry { id: "C01", run: c01::run_check, case: c01::case },
    PropEntry { id: "C02", run: c02::run_check, case: c02::case },
    PropEntry { id: "C17", run: c17::run, case: c17::case },
];
