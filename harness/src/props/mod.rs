pub mod c17;
