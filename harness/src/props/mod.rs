pub mod common;
pub mod c01;
pub mod c02;
pub mod c03;
pub mod c04;
pub mod c05;
pub mod c06;
pub mod c07;
pub mod c08;
pub mod c09;
pub mod c10;
pub mod c11;
pub mod c12;
pub mod c13;
pub mod c14;
pub mod c15;
pub mod c16;
pub mod c17;
pub mod c18;
pub mod c19;
pub mod c20;

use crate::engine::CaseOutcome;

pub struct PropEntry {
    pub id: &'static str,
    pub run: fn(&str) -> i32,
    pub case: fn(&[u32]) -> CaseOutcome,
}

pub const PROPS: &[PropEntry] = &[
    PropEntry { id: "C01", run: c01::run_check, case: c01::case },
    PropEntry { id: "C02", run: c02::run_check, case: c02::case },
    PropEntry { id: "C03", run: c03::run_check, case: c03::case },
    PropEntry { id: "C04", run: c04::run_check, case: c04::case },
    PropEntry { id: "C05", run: c05::run_check, case: c05::case },
    PropEntry { id: "C06", run: c06::run_check, case: c06::case },
    PropEntry { id: "C07", run: c07::run_check, case: c07::case },
    PropEntry { id: "C08", run: c08::run_check, case: c08::case },
    PropEntry { id: "C09", run: c09::run_check, case: c09::case },
    PropEntry { id: "C10", run: c10::run_check, case: c10::case },
    PropEntry { id: "C11", run: c11::run_check, case: c11::case },
    PropEntry { id: "C12", run: c12::run_check, case: c12::case },
    PropEntry { id: "C13", run: c13::run_check, case: c13::case },
    PropEntry { id: "C14", run: c14::run_check, case: c14::case },
    PropEntry { id: "C15", run: c15::run_check, case: c15::case },
    PropEntry { id: "C16", run: c16::run_check, case: c16::case },
    PropEntry { id: "C17", run: c17::run, case: c17::case },
    PropEntry { id: "C18", run: c18::run_check, case: c18::case },
    PropEntry { id: "C19", run: c19::run_check, case: c19::case },
    PropEntry { id: "C20", run: c20::run_check, case: c20::case },
];
