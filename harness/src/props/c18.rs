//! C18 — syntax-error discovery returns exactly the outermost error and missing nodes
//! (independent recomputation over Node::child).

use crate::engine::*;
use crate::pysrc;
use serde_json::json;
use std::path::Path;
use tree_sitter::{Node, Tree};
use tree_sitter_graph::parse_error::ParseError;

#[derive(Debug, Clone, PartialEq)]
pub struct Found {
    pub missing: bool,
    pub start: usize,
    pub end: usize,
    pub kind: String,
    pub row: usize,
    pub col: usize,
}

fn has_inner_error(n: Node) -> bool {
    for i in 0..n.child_count() {
        let c = n.child(i).unwrap();
        if c.is_error() || c.is_missing() || has_inner_error(c) {
            return true;
        }
    }
    false
}

/// Outermost ERROR / MISSING nodes in document order, by a plain recursive walk.
pub fn expected_errors(tree: &Tree) -> (Vec<Found>, bool) {
    fn walk(n: Node, out: &mut Vec<Found>, nested: &mut bool) {
        if n.is_error() || n.is_missing() {
            out.push(Found {
                missing: !n.is_error(),
                start: n.start_byte(),
                end: n.end_byte(),
                kind: n.kind().to_string(),
                row: n.start_position().row,
                col: n.start_position().column,
            });
            if has_inner_error(n) {
                *nested = true;
            }
            return;
        }
        for i in 0..n.child_count() {
            walk(n.child(i).unwrap(), out, nested);
        }
    }
    let mut out = vec![];
    let mut nested = false;
    walk(tree.root_node(), &mut out, &mut nested);
    (out, nested)
}

fn found_of(e: &ParseError) -> Found {
    let (missing, n) = match e {
        ParseError::Missing(n) => (true, n),
        ParseError::Unexpected(n) => (false, n),
    };
    Found { missing, start: n.start_byte(), end: n.end_byte(), kind: n.kind().to_string(), row: n.start_position().row, col: n.start_position().column }
}

pub fn check_source(source: &str) -> Result<(usize, bool, bool, bool), Failure> {
    let tree = pysrc::parse(source);
    let fail = |sig: &str, msg: String, more: serde_json::Value| Failure::new(format!("C18:{}", sig), msg, json!({"source": source, "sexp": tree.root_node().to_sexp(), "more": more}));
    let (expected, nested) = expected_errors(&tree);
    let show = |v: &Vec<Found>| json!(v.iter().map(|f| format!("{}{}@{}..{} ({}:{})", if f.missing { "MISSING " } else { "" }, f.kind, f.start, f.end, f.row + 1, f.col + 1)).collect::<Vec<_>>());

    // all
    let all = match call_lib(|| ParseError::all(&tree)) {
        Err(p) => return Err(fail(&p.signature(), format!("ParseError::all panicked: {}", p.message), json!({}))),
        Ok(v) => v,
    };
    let got: Vec<Found> = all.iter().map(found_of).collect();
    if got != expected {
        return Err(fail("all-differs", format!("ParseError::all returned {} errors, the outermost ERROR/MISSING nodes are {}", got.len(), expected.len()), json!({"all": show(&got), "expected": show(&expected)})));
    }
    for e in &all {
        // the variant must match the node
        let ok = match e {
            ParseError::Missing(n) => n.is_missing() && !n.is_error(),
            ParseError::Unexpected(n) => n.is_error(),
        };
        if !ok {
            return Err(fail("variant", "error variant does not match its node".into(), json!({"all": show(&got)})));
        }
    }
    // first
    let first = match call_lib(|| ParseError::first(&tree).map(|e| found_of(&e))) {
        Err(p) => return Err(fail(&p.signature(), format!("ParseError::first panicked: {}", p.message), json!({}))),
        Ok(v) => v,
    };
    if first.as_ref() != expected.first() {
        return Err(fail("first-differs", format!("ParseError::first returned {:?}, expected {:?}", first, expected.first()), json!({"expected": show(&expected)})));
    }
    // owning variants, moved to another thread
    let t1 = tree.clone();
    let t2 = tree.clone();
    let moved = call_lib(|| {
        let bundle_all = ParseError::into_all(t1);
        let bundle_first = ParseError::into_first(t2);
        std::thread::spawn(move || {
            let all: Vec<Found> = bundle_all.errors().iter().map(found_of).collect();
            let root_kind = bundle_all.tree().root_node().kind().to_string();
            let first: Option<Found> = bundle_first.error().as_ref().map(found_of);
            let opt = bundle_first.into_option();
            let opt_first = opt.as_ref().map(|o| found_of(o.error()));
            let tree_back = bundle_all.into_tree();
            (all, first, opt_first, root_kind, tree_back.root_node().end_byte())
        })
        .join()
    });
    match moved {
        Err(p) => return Err(fail(&p.signature(), format!("owning variants panicked: {}", p.message), json!({}))),
        Ok(Err(_)) => return Err(fail("thread-panic", "owning variants panicked on another thread".into(), json!({}))),
        Ok(Ok((all2, first2, opt_first, root_kind, end))) => {
            if all2 != expected {
                return Err(fail("into_all-differs", "into_all (moved to another thread) disagrees with the outermost error nodes".into(), json!({"into_all": show(&all2), "expected": show(&expected)})));
            }
            if first2.as_ref() != expected.first() || opt_first.as_ref() != expected.first() {
                return Err(fail("into_first-differs", format!("into_first (moved to another thread) returned {:?} / {:?}, expected {:?}", first2, opt_first, expected.first()), json!({})));
            }
            if root_kind != tree.root_node().kind() || end != tree.root_node().end_byte() {
                return Err(fail("tree-lost", "the tree returned by the owning bundle is not the original tree".into(), json!({})));
            }
        }
    }
    // display
    let path = Path::new("test.py");
    let mut missing_seen = false;
    for (e, f) in all.iter().zip(expected.iter()) {
        missing_seen |= f.missing;
        let plain = match call_lib(|| format!("{}", e.display(path, source))) {
            Err(p) => return Err(fail(&format!("display-{}", p.signature()), format!("display panicked: {}", p.message), json!({"error": show(&vec![f.clone()])}))),
            Ok(s) => s,
        };
        let pretty = match call_lib(|| format!("{}", e.display_pretty(path, source))) {
            Err(p) => return Err(fail(&format!("display_pretty-{}", p.signature()), format!("display_pretty panicked: {}", p.message), json!({"error": show(&vec![f.clone()])}))),
            Ok(s) => s,
        };
        let pos = format!("{}:{}", f.row + 1, f.col + 1);
        if !plain.contains(&pos) {
            return Err(fail("display-position", format!("plain display does not cite {}: {:?}", pos, plain), json!({"error": show(&vec![f.clone()])})));
        }
        if !pretty.contains(&pos) {
            return Err(fail(
                if f.missing { "display_pretty-position-missing" } else { "display_pretty-position" },
                format!("pretty display does not cite {}: {:?}", pos, pretty),
                json!({"error": show(&vec![f.clone()])}),
            ));
        }
        // the plain form quotes the first line of the node's own text
        if f.end > f.start {
            let text = &source[f.start..f.end];
            let first_line = text.split('\n').next().unwrap_or("");
            if !plain.ends_with(first_line) {
                return Err(fail("display-text", format!("plain display does not end with the node's first line {:?}: {:?}", first_line, plain), json!({})));
            }
        }
    }
    let not_at_zero = expected.iter().any(|f| f.start > 0);
    Ok((expected.len(), nested, missing_seen, not_at_zero))
}

pub fn case(tape: &[u32]) -> CaseOutcome {
    if tape.len() >= 2 && tape[0] == 0xFFFF_FF18 {
        let bytes: Vec<u8> = tape[2..].iter().map(|w| *w as u8).collect();
        return match String::from_utf8(bytes) {
            Ok(text) => match check_source(&text) {
                Err(f) => CaseOutcome::Fail(f),
                Ok(_) => CaseOutcome::Discard("artifact not reproduced"),
            },
            Err(_) => CaseOutcome::Discard("artifact is not UTF-8"),
        };
    }
    let mut t = Tape::new(tape);
    let base = if t.chance(1, 40) { pysrc::MISSING_ONLY[t.choose(pysrc::MISSING_ONLY.len())].to_string() } else { pysrc::gen_source(&mut t) };
    let nfaults = t.weighted(&[2, 4, 4, 3, 2, 1, 1]);
    let source = pysrc::inject_faults(&mut t, &base, nfaults);
    match check_source(&source) {
        Err(f) => CaseOutcome::Fail(f),
        Ok((n, nested, missing, not_at_zero)) => {
            let mut labels = vec![format!("errors:{}", match n { 0 => "0", 1 => "1", 2..=3 => "2-3", _ => "4+" })];
            if nested {
                labels.push("nested-error".into());
            }
            if missing {
                labels.push("missing-node".into());
            }
            if !source.is_ascii() {
                labels.push("non-ascii".into());
            }
            CaseOutcome::Pass(CaseReport {
                fingerprint: fingerprint(&source),
                nontrivial: not_at_zero && (nested || missing || n >= 2),
                labels,
                counters: vec![],
                sample: Some(json!({"source": source, "errors": n, "nested": nested, "missing": missing})),
                evaluations: 1,
            })
        }
    }
}

pub fn spec(tier: &str) -> Spec {
    let mut s = Spec::new("C18", tier, 40_000, 600_000, 500);
    s.rule = "generated / corpus Python sources with 0-6 injected token-level faults (delete / duplicate / swap a token, stray or unbalanced delimiter, at file start / end / anywhere, non-ASCII text). Oracle: a recursive walk over Node::child collects the outermost ERROR / MISSING nodes in document order; ParseError::all must equal it, first its head, into_all / into_first (moved to a spawned thread) the same; display and display_pretty of every error return and cite row+1:column+1. Non-trivial: >=1 error not starting at byte 0 and (an error nested in a reported node, or a MISSING node, or >=2 errors). Distinct = fingerprint of the source text.".into();
    s.assumptions = vec!["tree-sitter's Node::is_error / is_missing / child define what an error node is".into()];
    s
}

pub fn run_check(tier: &str) -> i32 {
    let started = std::time::Instant::now();
    let mut spec = spec(tier);
    let mut result = run_tapes(&spec, case);
    if tier == "thorough" && result.violations.is_empty() {
        let seeds: Vec<Vec<u8>> = pysrc::CORPUS.iter().chain(pysrc::RICH.iter()).map(|s| s.as_bytes().to_vec()).collect();
        match crate::fuzzrun::run("c18_parse_errors", 60_000, 8, spec.seed, &seeds, 2048) {
            Err(e) => harness_error(format!("libFuzzer c18_parse_errors: {}", e)),
            Ok(fr) => {
                result.accum.evaluations += fr.executions;
                *result.accum.counters.entry("libfuzzer:c18_parse_errors:executions".to_string()).or_default() += fr.executions;
                *result.accum.counters.entry("libfuzzer:c18_parse_errors:corpus-files".to_string()).or_default() += fr.corpus_files as u64;
                for (k, pth) in fr.timeouts.iter().enumerate() {
                    *result.accum.counters.entry("libfuzzer:c18_parse_errors:time-limit-inputs(inconclusive, saved)".to_string()).or_default() += 1;
                    let dir = out_root().join("evidence").join("replays");
                    let _ = std::fs::create_dir_all(&dir);
                    let _ = std::fs::write(dir.join(format!("C18-libfuzzer-time-limit-{}.txt", k)), std::fs::read(pth).unwrap_or_default());
                }
                let arts: Vec<String> = fr.artifacts.iter().filter_map(|p| std::fs::read(p).ok()).filter_map(|b| String::from_utf8(b).ok()).collect();
                let r = run_fixed(
                    &spec,
                    &arts,
                    |text| match check_source(text) {
                        Err(f) => CaseOutcome::Fail(f),
                        Ok(_) => CaseOutcome::Discard("artifact not reproduced"),
                    },
                    |text| vec![0xFFFF_FF18, 0].into_iter().chain(text.bytes().map(|x| x as u32)).collect(),
                );
                result = merge_results(result, r);
            }
        }
        spec.rule.push_str(" Thorough tier: additionally libFuzzer (target c18_parse_errors on raw Python text, 8 processes, corpus sources as seeds for half of them; executions in `counters`).");
    }
    finish(&spec, result, started)
}
