//! C13 — standard-library functions honour their documented contracts (reference model).

use crate::cval::{from_value, CVal};
use crate::engine::*;
use crate::lib_api::to_value;
use crate::pysrc;
use crate::stdlib::{self, CallResult, FUNCTIONS};
use crate::tree::TreeIndex;
use serde_json::json;
use std::collections::BTreeSet;
use tree_sitter_graph::functions::Functions;
use tree_sitter_graph::graph::{Graph, Value};
use tree_sitter_graph::Identifier;

const STRS: &[&str] = &["", "a", "ab", "{}", "{{", "}}", "{", "}", "x{}y{}", "{{}}", "a{b", "}{", "$1", "(a)(b)", "[ab]+", "(", "\\d", "é", "日本", "a/b.py", ".", "a b", "\n"];
const INTS: &[u32] = &[0, 1, 2, 7, 4294967294, 4294967295, 2147483648];

fn gen_scalar(t: &mut Tape, nnodes: usize, ngraph: usize, allow_syn: bool) -> CVal {
    match t.weighted(&[2, 2, 4, 5, if allow_syn { 3 } else { 0 }, 2]) {
        0 => CVal::Null,
        1 => CVal::Bool(t.chance(1, 2)),
        2 => CVal::Int(*t.pick(INTS)),
        3 => CVal::Str(t.pick(STRS).to_string()),
        4 => CVal::Syn(t.choose(nnodes)),
        _ => {
            if ngraph == 0 {
                CVal::Null
            } else {
                CVal::GNode(t.choose(ngraph))
            }
        }
    }
}

fn gen_val(t: &mut Tape, nnodes: usize, ngraph: usize, depth: usize, allow_syn: bool) -> CVal {
    if depth >= 3 || t.chance(3, 5) {
        return gen_scalar(t, nnodes, ngraph, allow_syn);
    }
    let n = t.choose(4);
    if t.chance(2, 3) {
        CVal::List((0..n).map(|_| gen_val(t, nnodes, ngraph, depth + 1, allow_syn)).collect())
    } else {
        // sets never contain syntax nodes: their iteration order is address-dependent in the
        // implementation and pre-order in the model, which `format`/`join` would expose
        CVal::Set((0..n).map(|_| gen_val(t, nnodes, ngraph, depth + 1, false)).collect::<BTreeSet<_>>())
    }
}

fn list_of(t: &mut Tape, nnodes: usize, ngraph: usize) -> CVal {
    let n = t.choose(5);
    CVal::List((0..n).map(|_| gen_val(t, nnodes, ngraph, 1, true)).collect())
}

/// Arguments steered towards the function's documented signature.
fn steered(t: &mut Tape, name: &str, nnodes: usize, ngraph: usize) -> Vec<CVal> {
    let s = |t: &mut Tape| CVal::Str(t.pick(STRS).to_string());
    let i = |t: &mut Tape| CVal::Int(*t.pick(INTS));
    let b = |t: &mut Tape| CVal::Bool(t.chance(1, 2));
    match name {
        "eq" => {
            let a = gen_val(t, nnodes, ngraph, 0, true);
            let other = match t.choose(4) {
                0 => a.clone(),
                1 => CVal::Null,
                2 => match &a {
                    CVal::Int(_) => i(t),
                    CVal::Str(_) => s(t),
                    CVal::Bool(_) => b(t),
                    CVal::List(_) => list_of(t, nnodes, ngraph),
                    // often the next node in pre-order: the first child, which for left-nested
                    // constructs (`a.b.c`, `x + y + z`) has the same kind and start as its parent
                    CVal::Syn(k) => {
                        if t.chance(1, 2) {
                            CVal::Syn((*k + 1).min(nnodes.saturating_sub(1)))
                        } else {
                            CVal::Syn(t.choose(nnodes))
                        }
                    }
                    other => other.clone(),
                },
                _ => gen_val(t, nnodes, ngraph, 0, true),
            };
            if t.chance(1, 2) {
                vec![a, other]
            } else {
                vec![other, a]
            }
        }
        "is-null" => vec![gen_val(t, nnodes, ngraph, 0, true)],
        "node" => vec![],
        "not" => vec![b(t)],
        "and" | "or" => (0..t.choose(5)).map(|_| b(t)).collect(),
        "plus" => (0..t.choose(5)).map(|_| if t.chance(2, 3) { CVal::Int(t.choose(10) as u32) } else { i(t) }).collect(),
        "format" => {
            // a format string with n placeholders and n (or n +- 1) arguments
            let n = t.choose(4);
            let mut fmt = String::new();
            for _ in 0..n {
                fmt.push_str(*t.pick(&["", "a", "{{", "}}", "é", " "]));
                fmt.push_str("{}");
            }
            fmt.push_str(*t.pick(&["", "!", "}}", "{{", "{", "}", "{x"]));
            let m = match t.choose(6) {
                0 => n + 1,
                1 => n.saturating_sub(1),
                _ => n,
            };
            let mut args = vec![CVal::Str(fmt)];
            for _ in 0..m {
                args.push(gen_val(t, nnodes, ngraph, 0, true));
            }
            args
        }
        "replace" => vec![s(t), CVal::Str(t.pick(&["a", "[ab]+", "(a)(b)", "(", "\\d", ".", "", "é", "b*"]).to_string()), CVal::Str(t.pick(&["", "_", "$1", "$2x", "${1}é", "$"]).to_string())],
        "concat" => (0..t.choose(4)).map(|_| list_of(t, nnodes, ngraph)).collect(),
        "is-empty" | "length" => vec![list_of(t, nnodes, ngraph)],
        "join" => {
            let mut a = vec![list_of(t, nnodes, ngraph)];
            if t.chance(1, 2) {
                a.push(s(t));
            }
            a
        }
        _ => vec![CVal::Syn(t.choose(nnodes))],
    }
}

fn type_sig(args: &[CVal]) -> String {
    args.iter().map(|a| a.type_name()).collect::<Vec<_>>().join(",")
}

pub fn case(tape: &[u32]) -> CaseOutcome {
    let mut t = Tape::new(tape);
    let mut source = pysrc::gen_source(&mut t);
    if t.chance(1, 4) {
        let n = 1 + t.choose(3);
        source = pysrc::inject_faults(&mut t, &source, n);
    }
    let tree = pysrc::parse(&source);
    let index = TreeIndex::new(&tree);
    let nnodes = index.len();
    let functions = Functions::stdlib();
    let ncalls = 1 + t.choose(12);
    let mut report = CaseReport::default();
    report.evaluations = 0;
    let mut labels = vec![];
    let mut classes: Vec<String> = vec![];
    let mut graph = Graph::new();
    let mut model_nodes = 0usize;
    for _ in 0..t.choose(4) {
        graph.add_graph_node();
        model_nodes += 1;
    }
    let mut sample_calls = vec![];
    for _ in 0..ncalls {
        let unknown = t.chance(1, 30);
        let name: &str = if unknown { *t.pick(&["unknown-fn", "Eq", "plus1", "is_null"]) } else { FUNCTIONS[t.choose(FUNCTIONS.len())] };
        let args: Vec<CVal> = if !unknown && t.chance(1, 2) {
            let mut a = steered(&mut t, name, nnodes, model_nodes);
            // sometimes one argument too many / too few
            match t.choose(10) {
                0 => a.push(gen_val(&mut t, nnodes, model_nodes, 0, true)),
                1 => {
                    a.pop();
                }
                _ => {}
            }
            a
        } else {
            (0..t.choose(5)).map(|_| gen_val(&mut t, nnodes, model_nodes, 0, true)).collect()
        };
        let values: Vec<Value> = args.iter().map(|a| to_value(a, &mut graph, &index)).collect();
        let before = graph.node_count();
        let expected = if unknown { Err("undefined function".to_string()) } else { stdlib::call(name, &args, &index, &source) };
        let got = call_lib(|| functions.call(&Identifier::from(name), &mut graph, &source, &mut values.clone().into_iter()));
        report.evaluations += 1;
        let render = |extra: serde_json::Value| json!({"function": name, "arguments": args.iter().map(|a| a.to_json()).collect::<Vec<_>>(), "source": source, "more": extra});
        let got = match got {
            Err(p) => {
                return CaseOutcome::Fail(Failure::new(format!("C13:{}:{}", name, p.signature()), format!("({} ...) panicked: {}", name, p.message), render(json!({}))));
            }
            Ok(g) => g,
        };
        let class;
        match (&expected, &got) {
            (Ok(CallResult::Value(v)), Ok(actual)) => {
                let actual_c = match from_value(actual, &graph, &index) {
                    Ok(c) => c,
                    Err(e) => return CaseOutcome::Fail(Failure::new(format!("C13:{}:bad-value", name), e, render(json!({})))),
                };
                if &actual_c != v {
                    return CaseOutcome::Fail(Failure::new(
                        format!("C13:{}:wrong-value", name),
                        format!("({} ...) returned {:?}, the documented result is {:?}", name, actual_c, v),
                        render(json!({"expected": v.to_json(), "actual": actual_c.to_json()})),
                    ));
                }
                if graph.node_count() != before {
                    return CaseOutcome::Fail(Failure::new(format!("C13:{}:side-effect", name), format!("({} ...) changed the number of graph nodes", name), render(json!({}))));
                }
                class = format!("{}({})=ok", name, type_sig(&args));
            }
            (Ok(CallResult::NewNode), Ok(actual)) => {
                match actual {
                    Value::GraphNode(r) if r.index() == before && graph.node_count() == before + 1 => {
                        model_nodes += 1;
                    }
                    other => {
                        return CaseOutcome::Fail(Failure::new(
                            "C13:node:not-fresh",
                            format!("(node) returned {:?} with {} nodes before and {} after", other, before, graph.node_count()),
                            render(json!({})),
                        ));
                    }
                }
                class = "node()=ok".to_string();
            }
            (Ok(_), Err(e)) => {
                return CaseOutcome::Fail(Failure::new(
                    format!("C13:{}:unexpected-error", name),
                    format!("({} ...) failed with `{}` although the arguments satisfy the documented contract", name, e),
                    render(json!({})),
                ));
            }
            (Err(why), Ok(actual)) => {
                return CaseOutcome::Fail(Failure::new(
                    format!("C13:{}:missing-error", name),
                    format!("({} ...) returned {:?} although the documented contract is broken ({})", name, actual, why),
                    render(json!({"why": why})),
                ));
            }
            (Err(_), Err(_)) => {
                if graph.node_count() != before {
                    return CaseOutcome::Fail(Failure::new(format!("C13:{}:side-effect", name), format!("failing ({} ...) changed the number of graph nodes", name), render(json!({}))));
                }
                class = format!("{}({})=err", name, type_sig(&args));
            }
        }
        if sample_calls.len() < 6 {
            sample_calls.push(json!({"call": format!("({} {})", name, args.iter().map(|a| format!("{:?}", a)).collect::<Vec<_>>().join(" ")), "expected": match &expected { Ok(CallResult::Value(v)) => format!("{:?}", v), Ok(CallResult::NewNode) => "fresh graph node".into(), Err(w) => format!("error: {}", w) }}));
        }
        labels.push(format!("{}:{}", name, if expected.is_ok() { "ok" } else { "err" }));
        classes.push(class);
    }
    labels.sort();
    labels.dedup();
    report.labels = labels;
    // distinct classes are counted through one fingerprint per case: the set of classes it hit
    report.fingerprint = fingerprint(&classes);
    report.nontrivial = classes.iter().any(|c| !c.contains("()="));
    report.counters = classes.iter().map(|c| (format!("class:{}", c), 1)).collect();
    report.sample = Some(json!({"source": source, "calls": sample_calls}));
    CaseOutcome::Pass(report)
}

pub fn spec(tier: &str) -> Spec {
    let mut s = Spec::new("C13", tier, 100_000, 3_000_000, 400);
    s.rule = "each case parses one generated/corpus source (a quarter with injected syntax faults), pre-creates 0-3 graph nodes and makes 1-12 calls of Functions::stdlib(): function drawn from the 21 stdlib names (1/30 an unknown name), arguments either steered to the documented signature (sometimes one too many / too few) or 0-4 arbitrary values of every Value variant (nested lists/sets, boundary integers, strings with braces / regex metacharacters / $1 / non-ASCII, any syntax node of the tree incl. anonymous, ERROR and root nodes, graph nodes). Oracle: the stdlib model (harness/src/stdlib.rs): equal value, or error exactly when the contract is broken; `node` returns index = previous node count; no panic. evaluations = calls. Non-trivial case: at least one call with >=1 argument; distinct = fingerprint of the case's list of (function, argument types, ok/err) classes; the counters list every class hit.".into();
    s.assumptions = vec![
        "sets containing syntax nodes are not generated (their element order is address-dependent in the implementation)".into(),
        "the regex crate's replace_all is shared with the implementation (the reference defines `replace` by it)".into(),
    ];
    s
}

pub fn run_check(tier: &str) -> i32 {
    let started = std::time::Instant::now();
    let spec = spec(tier);
    let result = run_tapes(&spec, case);
    finish(&spec, result, started)
}
