//! C12 — results are deterministic and a loaded file is reusable without cross-talk
//! (metamorphic over repetitions, histories, threads and processes).

use super::common::*;
use crate::cval::{observe, CVal, MGraph};
use crate::engine::*;
use crate::gen::GenCfg;
use crate::lib_api::*;
use crate::pysrc;
use crate::tree::TreeIndex;
use proptest::strategy::{Strategy, ValueTree};
use serde_json::json;
use std::collections::BTreeMap;
use tree_sitter::Tree;
use tree_sitter_graph::ast::File;
use tree_sitter_graph::functions::Functions;
use tree_sitter_graph::graph::{Graph, Value};
use tree_sitter_graph::{ExecutionConfig, Identifier, NoCancellation, Variables};

/// What one execution produced, in every observable form.
#[derive(Debug, Clone, PartialEq)]
pub enum Transcript {
    Ok { pretty: String, json: serde_json::Value, graph: MGraph },
    Err { text: String, pretty: String },
    Panic(String),
}

impl Transcript {
    fn short(&self) -> String {
        match self {
            Transcript::Ok { graph, .. } => format!("graph: {}", graph.summary()),
            Transcript::Err { text, .. } => format!("error: {}", text),
            Transcript::Panic(m) => format!("panic: {}", m),
        }
    }
}

fn execute(file: &File, dsl: &str, tree: &Tree, source: &str, globals: &BTreeMap<String, CVal>, lazy: bool, cancel_at: Option<u64>) -> Transcript {
    let index = TreeIndex::new(tree);
    let mut graph = Graph::new();
    let functions = Functions::stdlib();
    let vars = variables_from(globals, &mut graph, &index);
    let before: BTreeMap<String, Value> = vars.iter().map(|(k, v)| (k.to_string(), v.clone())).collect();
    let config = ExecutionConfig::new(&functions, &vars).lazy(lazy);
    let flag = CountingFlag::new(cancel_at);
    let r = call_lib(|| if cancel_at.is_some() { file.execute_into(&mut graph, tree, source, &config, &flag) } else { file.execute_into(&mut graph, tree, source, &config, &NoCancellation) });
    let after: BTreeMap<String, Value> = vars.iter().map(|(k, v)| (k.to_string(), v.clone())).collect();
    if before != after {
        return Transcript::Panic(format!("the caller's globals changed: {:?} -> {:?}", before, after));
    }
    match r {
        Err(p) => Transcript::Panic(p.message),
        Ok(Err(e)) => match render_exec_error(&e, source, dsl) {
            Ok((text, pretty)) => Transcript::Err { text, pretty },
            Err(p) => Transcript::Panic(format!("rendering the error panicked: {}", p.message)),
        },
        Ok(Ok(())) => {
            let pretty = graph.pretty_print().to_string();
            let json = serde_json::to_value(&graph).unwrap_or(serde_json::Value::Null);
            match observe(&graph, &index) {
                Ok(g) => Transcript::Ok { pretty, json, graph: g },
                Err(e) => Transcript::Panic(format!("inconsistent graph: {}", e)),
            }
        }
    }
}

/// Two results of one (file, source, mode): equal, or - when one of them ran on another parse of
/// the source - equal in what does not mention addresses.
fn agree(got: &Transcript, want: &Transcript, other_parse: bool) -> bool {
    if !other_parse {
        return got == want;
    }
    match (got, want) {
        (Transcript::Ok { graph: a, .. }, Transcript::Ok { graph: b, .. }) => a == b,
        (Transcript::Err { text: a, .. }, Transcript::Err { text: b, .. }) => a == b || a.contains("[syntax node") || b.contains("[syntax node"),
        _ => false,
    }
}

struct Prog {
    dsl: String,
    globals: BTreeMap<String, CVal>,
}

fn gen_inputs(tape: &[u32]) -> (Vec<Prog>, Vec<String>, Vec<u32>) {
    let (aux, main) = split_tape(tape);
    let mut a = Tape::new(&aux);
    let mut t = Tape::new(&main);
    let nprog = 1 + a.choose(3);
    let nsrc = 1 + a.choose(3);
    let sources: Vec<String> = (0..nsrc).map(|_| if a.chance(1, 4) { super::c04::SHAPES[a.choose(super::c04::SHAPES.len())].to_string() } else { pysrc::gen_source(&mut a) }).collect();
    let mut progs = vec![];
    for _ in 0..nprog {
        // inheritance scenarios: several defining ancestors, some with identical extents
        if a.chance(1, 4) {
            let (prog, _) = super::c04::scenario(&mut t, a.chance(1, 3), 30);
            progs.push(Prog { dsl: crate::dsl::print_canonical(&prog).text, globals: BTreeMap::new() });
            continue;
        }
        let mut cfg = if a.chance(1, 2) { GenCfg::fragment() } else { GenCfg::full() };
        cfg.fault = a.chance(1, 3);
        cfg.max_stanzas = 4;
        cfg.prints = false;
        // sets of syntax nodes print in address order: same within one process and tree, but
        // keep text rendering of them out of the comparison between processes
        let g = crate::gen::generate(&mut t, &cfg);
        progs.push(Prog { dsl: crate::dsl::print_canonical(&g.prog).text, globals: g.globals });
    }
    // remaining aux words drive the history
    let rest: Vec<u32> = (0..40).map(|_| a.word()).collect();
    (progs, sources, rest)
}

/// Invalid texts whose diagnostics involve hash-ordered collections.
const REJECTED: &[&str] = &[
    "(module (_) @a (_) @b (_) @c) @m { print @m }\n",
    "(call function: (_) @f arguments: (_) @args) @c { }\n",
    "(module) @m { let x = 1 let x = 2 }\n",
    "global g\nglobal g\n(module) @m { print @m }\n",
    "(module) @m { print @nope, @nada }\n",
];

pub fn case(tape: &[u32]) -> CaseOutcome {
    if tape.len() == 2 && tape[0] == PINNED_TAG {
        return pinned_address_order();
    }
    if tape.len() == 2 && tape[0] == PROBE_TAG {
        return probe(tape[1] as usize);
    }
    let (progs, sources, rest) = gen_inputs(tape);
    let mut h = Tape::new(&rest);
    let mut report = CaseReport::default();
    report.evaluations = 0;
    let mut labels = vec![];
    // (a) loading twice: same AST or same diagnostic
    for p in &progs {
        let l1 = load(&p.dsl);
        let l2 = load(&p.dsl);
        match (l1, l2) {
            (Ok(Ok(f1)), Ok(Ok(f2))) => {
                let same = f1.globals == f2.globals && f1.inherited_variables == f2.inherited_variables && f1.shorthands == f2.shorthands && f1.stanzas.len() == f2.stanzas.len() && f1.stanzas.iter().zip(f2.stanzas.iter()).all(|(a, b)| a.statements == b.statements);
                if !same {
                    return CaseOutcome::Fail(Failure::new("C12:load-differs", "loading the same text twice gives different ASTs".to_string(), json!({"dsl": p.dsl})));
                }
            }
            (Ok(Err(e1)), Ok(Err(e2))) => {
                if format!("{}", e1) != format!("{}", e2) {
                    return CaseOutcome::Fail(Failure::new("C12:diagnostic-differs", format!("loading the same text twice gives different diagnostics: `{}` vs `{}`", e1, e2), json!({"dsl": p.dsl})));
                }
            }
            (Err(p1), _) | (_, Err(p1)) => return CaseOutcome::Fail(Failure::new(format!("C12:{}", p1.signature()), p1.message, json!({"dsl": p.dsl}))),
            _ => return CaseOutcome::Fail(Failure::new("C12:load-flaky", "loading the same text twice once succeeds and once fails".to_string(), json!({"dsl": p.dsl}))),
        }
    }
    let bad = REJECTED[h.choose(REJECTED.len())];
    let mut diags = std::collections::BTreeSet::new();
    for _ in 0..6 {
        match load(bad) {
            Ok(Err(e)) => {
                let pretty = render_parse_error(&e, bad).map(|x| x.1).unwrap_or_default();
                diags.insert(format!("{}\n{}", e, pretty));
            }
            Ok(Ok(_)) => {
                diags.insert("accepted".to_string());
            }
            Err(p) => return CaseOutcome::Fail(Failure::new(format!("C12:{}", p.signature()), p.message, json!({"dsl": bad}))),
        }
    }
    if diags.len() != 1 {
        return CaseOutcome::Fail(Failure::new("C12:diagnostic-differs", format!("loading one rejected text six times gives {} different diagnostics: {:?}", diags.len(), diags), json!({"dsl": bad})));
    }
    let files: Vec<File> = match progs.iter().map(|p| load(&p.dsl)).collect::<Result<Vec<_>, _>>() {
        Ok(v) => match v.into_iter().collect::<Result<Vec<_>, _>>() {
            Ok(f) => f,
            Err(_) => return CaseOutcome::Discard("generated program rejected by the loader"),
        },
        Err(p) => return CaseOutcome::Fail(Failure::new(format!("C12:{}", p.signature()), p.message, json!({}))),
    };
    let trees: Vec<Tree> = sources.iter().map(|s| pysrc::parse(s)).collect();
    // isolated results: a freshly loaded file on a fresh thread, twice
    let mut isolated: BTreeMap<(usize, usize, bool), Transcript> = BTreeMap::new();
    for (i, p) in progs.iter().enumerate() {
        for (j, src) in sources.iter().enumerate() {
            for lazy in [false, true] {
                let mut results = vec![];
                for _ in 0..2 {
                    let r = std::thread::scope(|s| {
                        s.spawn(|| {
                            let fresh = match load(&p.dsl) {
                                Ok(Ok(f)) => f,
                                _ => return Transcript::Panic("fresh load failed".into()),
                            };
                            execute(&fresh, &p.dsl, &trees[j], src, &p.globals, lazy, None)
                        })
                        .join()
                        .unwrap_or(Transcript::Panic("thread panicked".into()))
                    });
                    results.push(r);
                    report.evaluations += 1;
                }
                if let Transcript::Panic(m) = &results[0] {
                    return CaseOutcome::Fail(Failure::new("C12:panic", m.clone(), json!({"dsl": p.dsl, "source": src, "lazy": lazy})));
                }
                if results[0] != results[1] {
                    return CaseOutcome::Fail(Failure::new(
                        "C12:not-deterministic",
                        format!("two isolated executions of the same file on the same tree differ: {} vs {}", results[0].short(), results[1].short()),
                        json!({"dsl": p.dsl, "source": src, "lazy": lazy, "first": format!("{:?}", results[0]), "second": format!("{:?}", results[1])}),
                    ));
                }
                isolated.insert((i, j, lazy), results.pop().unwrap());
            }
        }
    }
    // (b)/(c) a history on this (long-lived) worker thread with the files loaded once
    let steps = 4 + h.choose(6);
    let mut log = vec![];
    let mut had_failure_before_success = false;
    let mut failed_or_cancelled = false;
    for _ in 0..steps {
        let (i, j, lazy) = (h.choose(progs.len()), h.choose(sources.len()), h.chance(1, 2));
        let cancel = if h.chance(1, 5) { Some(1 + h.choose(12) as u64) } else { None };
        // a third of the steps parse the source again and drop that tree afterwards (node ids
        // are addresses; later trees reuse them)
        let reparsed;
        let short_lived = h.chance(1, 3);
        let tree_here: &Tree = if short_lived {
            reparsed = pysrc::parse(&sources[j]);
            &reparsed
        } else {
            &trees[j]
        };
        let got = execute(&files[i], &progs[i].dsl, tree_here, &sources[j], &progs[i].globals, lazy, cancel);
        report.evaluations += 1;
        log.push(json!({"file": i, "tree": j, "short_lived_tree": short_lived, "lazy": lazy, "cancel_from_poll": cancel, "result": got.short()}));
        if cancel.is_some() {
            failed_or_cancelled = true;
            // the same cancelled run, with a freshly loaded file on a fresh thread
            let alone = std::thread::scope(|s| {
                s.spawn(|| match load(&progs[i].dsl) {
                    Ok(Ok(fresh)) => execute(&fresh, &progs[i].dsl, &trees[j], &sources[j], &progs[i].globals, lazy, cancel),
                    _ => Transcript::Panic("fresh load failed".into()),
                })
                .join()
                .unwrap_or(Transcript::Panic("thread panicked".into()))
            });
            report.evaluations += 1;
            if !agree(&got, &alone, short_lived) {
                return CaseOutcome::Fail(Failure::new(
                    "C12:history-changes-cancelled-result",
                    format!("after a history of executions on one thread, file {} on tree {} (lazy={}) cancelled from poll {:?} gives {} instead of {}", i, j, lazy, cancel, got.short(), alone.short()),
                    json!({"programs": progs.iter().map(|p| p.dsl.clone()).collect::<Vec<_>>(), "sources": sources, "history": log, "isolated": format!("{:?}", alone), "in_history": format!("{:?}", got)}),
                ));
            }
            continue;
        }
        let want = &isolated[&(i, j, lazy)];
        // another parse of the same source: the JSON form carries tree-sitter's node ids
        // (addresses), and texts that list several syntax nodes follow their address order (the
        // known finding, pinned separately) - the observed graph is what is compared there
        if !agree(&got, want, short_lived) {
            return CaseOutcome::Fail(Failure::new(
                "C12:history-changes-result",
                format!("after a history of executions on one thread, file {} on tree {} (lazy={}) gives {} instead of {}", i, j, lazy, got.short(), want.short()),
                json!({"programs": progs.iter().map(|p| p.dsl.clone()).collect::<Vec<_>>(), "sources": sources, "history": log, "isolated": format!("{:?}", want), "in_history": format!("{:?}", got)}),
            ));
        }
        if matches!(got, Transcript::Err { .. }) {
            failed_or_cancelled = true;
        } else if failed_or_cancelled {
            had_failure_before_success = true;
        }
    }
    // (c) concurrent threads sharing one loaded file
    let i = h.choose(progs.len());
    let nthreads = 8;
    let plan: Vec<(usize, bool)> = (0..nthreads).map(|_| (h.choose(sources.len()), h.chance(1, 2))).collect();
    let results: Vec<Transcript> = std::thread::scope(|s| {
        let handles: Vec<_> = plan
            .iter()
            .map(|(j, lazy)| {
                let file = &files[i];
                let p = &progs[i];
                let tree = &trees[*j];
                let src = &sources[*j];
                let lazy = *lazy;
                s.spawn(move || execute(file, &p.dsl, tree, src, &p.globals, lazy, None))
            })
            .collect();
        handles.into_iter().map(|h| h.join().unwrap_or(Transcript::Panic("thread panicked".into()))).collect()
    });
    report.evaluations += nthreads as u64;
    for ((j, lazy), got) in plan.iter().zip(results.iter()) {
        let want = &isolated[&(i, *j, *lazy)];
        if got != want {
            return CaseOutcome::Fail(Failure::new(
                "C12:concurrent-use-changes-result",
                format!("{} threads sharing one loaded file: file {} on tree {} (lazy={}) gives {} instead of {}", nthreads, i, j, lazy, got.short(), want.short()),
                json!({"dsl": progs[i].dsl, "sources": sources}),
            ));
        }
    }
    if had_failure_before_success {
        labels.push("success-after-failed-or-cancelled-run".to_string());
    }
    let ok_runs = isolated.values().filter(|t| matches!(t, Transcript::Ok { .. })).count();
    let err_runs = isolated.values().filter(|t| matches!(t, Transcript::Err { .. })).count();
    if err_runs > 0 {
        labels.push("failing-runs".into());
    }
    let big = isolated.values().any(|t| matches!(t, Transcript::Ok { graph, .. } if graph.attr_count() >= 2));
    report.fingerprint = fingerprint(&(progs.iter().map(|p| p.dsl.clone()).collect::<Vec<_>>(), &sources));
    report.nontrivial = sources.len() >= 2 && ok_runs >= 2 && big;
    report.labels = labels;
    report.sample = Some(json!({"programs": progs.iter().map(|p| p.dsl.clone()).collect::<Vec<_>>(), "sources": sources, "history": log}));
    CaseOutcome::Pass(report)
}

// ------------------------------------------------------------------------------------------------
// across processes: K children given one seed must print the same transcript

fn child_tapes(seed: u64, n: usize) -> Vec<Vec<u32>> {
    use proptest::test_runner::{Config, RngAlgorithm, TestRng, TestRunner};
    let mut bytes = [0u8; 32];
    bytes[..8].copy_from_slice(&seed.to_le_bytes());
    bytes[8] = 12;
    let rng = TestRng::from_seed(RngAlgorithm::ChaCha, &bytes);
    let mut runner = TestRunner::new_with_rng(Config::default(), rng);
    let strategy = proptest::collection::vec(proptest::prelude::any::<u32>(), 0..900usize);
    (0..n).map(|_| strategy.new_tree(&mut runner).unwrap().current()).collect()
}

/// (structural part, textual part, holds a set whose printed order depends on addresses)
fn normalise(t: &Transcript) -> (String, String, bool) {
    fn ambiguous(v: &CVal) -> bool {
        match v {
            CVal::Set(xs) => xs.iter().filter(|x| x.has_syn()).count() >= 2 || xs.iter().any(ambiguous),
            CVal::List(xs) => xs.iter().any(ambiguous),
            _ => false,
        }
    }
    // syntax-node ids in JSON are per-process handles: compare the observed graph instead
    match t {
        Transcript::Ok { pretty, graph, .. } => {
            let amb = graph.nodes.iter().any(|n| n.attrs.values().any(ambiguous) || n.edges.values().any(|a| a.values().any(ambiguous)));
            (format!("ok {}", graph.to_json()), pretty.clone(), amb)
        }
        Transcript::Err { text, pretty } => ("err".to_string(), format!("{}\n{}", text, pretty), text.contains("{[syntax node")),
        Transcript::Panic(m) => (format!("panic {}", m), String::new(), false),
    }
}

pub fn child_main(seed: u64, n: usize) {
    for (k, tape) in child_tapes(seed, n).iter().enumerate() {
        let (progs, sources, _) = gen_inputs(tape);
        let mut structural = vec![];
        let mut textual = vec![];
        let mut ambiguous = false;
        for p in &progs {
            match load(&p.dsl) {
                Ok(Ok(file)) => {
                    for src in &sources {
                        let tree = pysrc::parse(src);
                        for lazy in [false, true] {
                            let (a, b, c) = normalise(&execute(&file, &p.dsl, &tree, src, &p.globals, lazy, None));
                            structural.push(a);
                            textual.push(b);
                            ambiguous |= c;
                        }
                    }
                }
                Ok(Err(e)) => structural.push(format!("rejected {}", e)),
                Err(p) => structural.push(format!("load panic {}", p.message)),
            }
        }
        for bad in REJECTED {
            if let Ok(Err(e)) = load(bad) {
                textual.push(format!("{}", e));
            }
        }
        println!("CASE {} {:016x} {:016x} {}", k, fingerprint(&structural), fingerprint(&textual), ambiguous);
    }
}

fn cross_process(spec: &Spec, nproc: usize, ncases: usize) -> RunResult {
    let exe = std::env::current_exe().expect("current exe");
    let outputs: Vec<Vec<String>> = std::thread::scope(|s| {
        let hs: Vec<_> = (0..nproc)
            .map(|_| {
                let exe = exe.clone();
                s.spawn(move || {
                    let out = std::process::Command::new(exe).args(["C12", "--child", &format!("{}", spec.seed), &format!("{}", ncases)]).env("RUST_BACKTRACE", "0").output();
                    match out {
                        Ok(o) => String::from_utf8_lossy(&o.stdout).lines().filter(|l| l.starts_with("CASE ")).map(|l| l.to_string()).collect::<Vec<_>>(),
                        Err(_) => vec![],
                    }
                })
            })
            .collect();
        hs.into_iter().map(|h| h.join().unwrap_or_default()).collect()
    });
    let mut acc = Accum::default();
    let mut violations = vec![];
    if outputs.iter().any(|o| o.len() != ncases) {
        harness_error(format!("a C12 child process printed {:?} transcript lines instead of {}", outputs.iter().map(|o| o.len()).collect::<Vec<_>>(), ncases));
    } else {
        let tapes = child_tapes(spec.seed, ncases);
        for k in 0..ncases {
            acc.cases += 1;
            acc.evaluations += nproc as u64;
            let first = &outputs[0][k];
            if outputs.iter().any(|o| &o[k] != first) {
                let (progs, sources, _) = gen_inputs(&tapes[k]);
                let field = |line: &str, i: usize| line.split(' ').nth(i).unwrap_or("").to_string();
                let structural_differs = outputs.iter().any(|o| field(&o[k], 2) != field(first, 2));
                let ambiguous = field(first, 4) == "true";
                let sig = if structural_differs {
                    "C12:processes-differ"
                } else if ambiguous {
                    "C12:address-ordered-set-text"
                } else {
                    "C12:processes-differ:text"
                };
                let f = Failure::new(
                    sig,
                    format!("{} processes given the same inputs print different transcripts for case {} ({})", nproc, k, if structural_differs { "graphs / outcomes differ" } else { "only rendered text differs" }),
                    json!({"programs": progs.iter().map(|p| p.dsl.clone()).collect::<Vec<_>>(), "sources": sources, "transcript_hashes": outputs.iter().map(|o| o[k].clone()).collect::<Vec<_>>()}),
                );
                let known = load_known_findings(spec.id);
                if known.iter().any(|kf| kf.status == "known" && f.signature.starts_with(&kf.signature)) {
                    *acc.known_hits.entry(f.signature.clone()).or_default() += 1;
                    continue;
                }
                violations.push(Violation { replay_path: String::new(), tape: tapes[k].clone(), failure: f });
                break;
            }
        }
        *acc.labels.entry(format!("cross-process-cases-x{}-processes", nproc)).or_default() += ncases as u64;
    }
    // write replay files for violations
    for v in violations.iter_mut() {
        let dir = out_root().join("evidence").join("replays");
        let _ = std::fs::create_dir_all(&dir);
        let path = dir.join(format!("C12-process-{:016x}.json", fingerprint(&v.tape)));
        let _ = std::fs::write(&path, serde_json::to_string_pretty(&json!({"property": "C12", "signature": v.failure.signature, "message": v.failure.message, "tape": v.tape, "detail": v.failure.detail})).unwrap());
        v.replay_path = path.to_string_lossy().to_string();
    }
    RunResult { accum: acc, violations, harness_errors: vec![] }
}

const PINNED_TAG: u32 = 0xFFFF_FF12;
const PROBE_TAG: u32 = 0xFFFF_FF13;

/// A function that executes another file on another tree while the outer execution is between
/// two of its matches, and reports what came out.
struct Reenter {
    inner: std::sync::Arc<File>,
    lazy: bool,
}

impl tree_sitter_graph::functions::Function for Reenter {
    fn call(&self, _graph: &mut Graph, _source: &str, parameters: &mut dyn tree_sitter_graph::functions::Parameters) -> Result<Value, tree_sitter_graph::ExecutionError> {
        parameters.finish()?;
        let source = "a\nb\n";
        let tree = pysrc::parse(source);
        let functions = Functions::stdlib();
        let globals = Variables::new();
        let config = ExecutionConfig::new(&functions, &globals).lazy(self.lazy);
        Ok(match self.inner.execute(&tree, source, &config, &NoCancellation) {
            Ok(g) => Value::String(format!("inner run: {} nodes", g.node_count())),
            Err(e) => Value::String(format!("inner run failed: {}", e)),
        })
    }
}

struct Constant(&'static str);
impl tree_sitter_graph::functions::Function for Constant {
    fn call(&self, _graph: &mut Graph, _source: &str, parameters: &mut dyn tree_sitter_graph::functions::Parameters) -> Result<Value, tree_sitter_graph::ExecutionError> {
        while parameters.param().is_ok() {}
        Ok(Value::String(self.0.to_string()))
    }
}

/// Fixed probes of clauses the generated histories do not reach:
/// 0 - a diagnostic is a function of the text, whatever the thread loaded before;
/// 1..=4 - an execution started from inside a caller-supplied function / a match visitor
///         (re-entrancy on one thread) equals the isolated run;
/// 5, 6 - a function the caller re-registers between two executions is the one that is called.
fn probe(i: usize) -> CaseOutcome {
    let pass = |label: &str| CaseOutcome::Pass(CaseReport { fingerprint: fingerprint(&format!("probe{}", i)), nontrivial: true, labels: vec![format!("probe:{}", label)], counters: vec![], sample: None, evaluations: 1 });
    let failure = |sig: &str, msg: String| CaseOutcome::Fail(Failure::new(format!("C12:{}", sig), msg, json!({"probe": i})));
    match i {
        0 => {
            let a = "(module) @_m {\n  scan \"x\" {\n    \"(\" { }\n  }\n}\n";
            let b = "\n\n; moved down\n(module) @_m {\n\n      scan \"x\" { \"(\" { } }\n}\n";
            let diag = |text: &str| match load(text) {
                Ok(Err(e)) => format!("{}", e),
                Ok(Ok(_)) => "accepted".to_string(),
                Err(p) => format!("panic: {}", p.message),
            };
            let (ta, tb) = (a.to_string(), b.to_string());
            let fresh_a = std::thread::spawn(move || match load(&ta) { Ok(Err(e)) => format!("{}", e), Ok(Ok(_)) => "accepted".to_string(), Err(p) => format!("panic: {}", p.message) }).join().unwrap_or_default();
            let fresh_b = std::thread::spawn(move || match load(&tb) { Ok(Err(e)) => format!("{}", e), Ok(Ok(_)) => "accepted".to_string(), Err(p) => format!("panic: {}", p.message) }).join().unwrap_or_default();
            let seq = [diag(b), diag(a), diag(b), diag(a)];
            if seq[1] != fresh_a || seq[3] != fresh_a || seq[0] != fresh_b || seq[2] != fresh_b {
                return failure("diagnostic-depends-on-history", format!("the diagnostic of a text depends on what the thread loaded before: alone `{}` / `{}`, in sequence {:?}", fresh_a, fresh_b, seq));
            }
            pass("diagnostic-independent-of-history")
        }
        1..=4 => {
            let (outer_lazy, inner_lazy) = (i % 2 == 0, i >= 3);
            let inner_dsl = "(identifier) @x { node @x.n }\n";
            let inner = match load(inner_dsl) {
                Ok(Ok(f)) => std::sync::Arc::new(f),
                _ => return CaseOutcome::Discard("probe file rejected"),
            };
            let outer_dsl = "(identifier) @id {\n  node @id.n\n  attr (@id.n) inner = (reenter)\n  if (eq (reenter) \"inner run: 2 nodes\") {\n    attr (@id.n) seen\n  }\n}\n";
            let outer = match load(outer_dsl) {
                Ok(Ok(f)) => f,
                _ => return CaseOutcome::Discard("probe file rejected"),
            };
            let source = "p\nq\nr\n";
            let tree = pysrc::parse(source);
            let index = TreeIndex::new(&tree);
            let mut functions = Functions::stdlib();
            functions.add(Identifier::from("reenter"), Reenter { inner: inner.clone(), lazy: inner_lazy });
            let globals = Variables::new();
            let config = ExecutionConfig::new(&functions, &globals).lazy(outer_lazy);
            let r = call_lib(|| outer.execute(&tree, source, &config, &NoCancellation));
            let graph = match r {
                Err(p) => return failure("reentrant-execution-panics", format!("an execution started from a caller-supplied function (outer lazy={}, inner lazy={}) panicked: {}", outer_lazy, inner_lazy, p.message)),
                Ok(Err(e)) => return failure("reentrant-execution-fails", format!("outer execution failed: {}", e)),
                Ok(Ok(g)) => g,
            };
            let obs = match observe(&graph, &index) {
                Ok(o) => o,
                Err(e) => return failure("bad-graph", e),
            };
            let want = CVal::Str("inner run: 2 nodes".into());
            if obs.nodes.len() != 3 || obs.nodes.iter().any(|n| n.attrs.get("inner") != Some(&want) || n.attrs.get("seen") != Some(&CVal::Bool(true))) {
                return failure("reentrant-execution-differs", format!("the inner executions did not equal the isolated run: {:?}", obs.nodes));
            }
            // the same from inside a match visitor
            let mut inner_results = vec![];
            let visited = call_lib(|| {
                outer.try_visit_matches::<(), _>(&tree, source, outer_lazy, |_m| {
                    let src = "a\nb\n";
                    let t2 = pysrc::parse(src);
                    let f2 = Functions::stdlib();
                    let g2 = Variables::new();
                    let c2 = ExecutionConfig::new(&f2, &g2).lazy(inner_lazy);
                    inner_results.push(inner.execute(&t2, src, &c2, &NoCancellation).map(|g| g.node_count()).map_err(|e| format!("{}", e)));
                    Ok(())
                })
            });
            match visited {
                Err(p) => return failure("reentrant-execution-panics", format!("an execution started from a match visitor panicked: {}", p.message)),
                Ok(_) => {
                    if inner_results.len() != 3 || inner_results.iter().any(|r| r != &Ok(2)) {
                        return failure("reentrant-execution-differs", format!("executions started from a match visitor gave {:?}", inner_results));
                    }
                }
            }
            pass("re-entrant-executions")
        }
        7 | 8 => {
            // one loaded file, executed with different caller globals: a default is used exactly
            // when the caller gives nothing, whatever an earlier execution was given
            let lazy = i == 8;
            let dsl = "global g = \"dflt\"\nglobal h\n(module) @m {\n  node @m.n\n  attr (@m.n) g = g, h = h\n}\n";
            let file = match load(dsl) {
                Ok(Ok(f)) => f,
                _ => return CaseOutcome::Discard("probe file rejected"),
            };
            let source = "pass\n";
            let tree = pysrc::parse(source);
            let index = TreeIndex::new(&tree);
            let functions = Functions::stdlib();
            let mut seen = vec![];
            for supplied in [None, Some("given"), None, Some("other")] {
                let mut globals = Variables::new();
                let _ = globals.add(Identifier::from("h"), Value::String("h".into()));
                if let Some(v) = supplied {
                    let _ = globals.add(Identifier::from("g"), Value::String(v.into()));
                }
                let config = ExecutionConfig::new(&functions, &globals).lazy(lazy);
                match call_lib(|| file.execute(&tree, source, &config, &NoCancellation)) {
                    Err(p) => return failure(&p.signature(), p.message),
                    Ok(Err(e)) => return failure("probe-fails", format!("{}", e)),
                    Ok(Ok(g)) => match observe(&g, &index) {
                        Ok(o) => seen.push(o.nodes[0].attrs.get("g").cloned()),
                        Err(e) => return failure("bad-graph", e),
                    },
                }
            }
            // and without `h` the run fails, also after runs that had it
            let globals = Variables::new();
            let config = ExecutionConfig::new(&functions, &globals).lazy(lazy);
            let missing = matches!(call_lib(|| file.execute(&tree, source, &config, &NoCancellation)), Ok(Err(_)));
            let s = |x: &str| Some(CVal::Str(x.into()));
            if seen != vec![s("dflt"), s("given"), s("dflt"), s("other")] || !missing {
                return failure("globals-of-an-earlier-execution-stick", format!("one file executed with different caller globals (lazy={}): saw {:?}, missing global reported: {}", lazy, seen, missing));
            }
            pass("different-globals-per-execution")
        }
        9 | 10 => {
            // threads that call `replace` with different patterns at the same time
            let lazy = i == 10;
            let dsl = "(identifier) @x {\n  node @x.n\n  attr (@x.n) a = (replace (source-text @x) \"a+\" \"<A>\"), b = (replace (source-text @x) \"[b-z]\" \"-\"), c = (replace (source-text @x) \"(x)(y)\" \"$2$1\")\n}\n";
            let file = match load(dsl) {
                Ok(Ok(f)) => f,
                _ => return CaseOutcome::Discard("probe file rejected"),
            };
            let source: String = (0..60).map(|k| format!("aab{}xyaz\n", ["q", "bb", "xy", "a"][k % 4])).collect();
            let tree = pysrc::parse(&source);
            let index = TreeIndex::new(&tree);
            let run_once = || -> Result<MGraph, String> {
                let functions = Functions::stdlib();
                let globals = Variables::new();
                let config = ExecutionConfig::new(&functions, &globals).lazy(lazy);
                match call_lib(|| file.execute(&tree, &source, &config, &NoCancellation)) {
                    Err(p) => Err(p.message),
                    Ok(Err(e)) => Err(format!("{}", e)),
                    Ok(Ok(g)) => observe(&g, &index),
                }
            };
            let alone = run_once();
            let results: Vec<Result<MGraph, String>> = std::thread::scope(|sc| {
                let hs: Vec<_> = (0..8).map(|_| sc.spawn(|| (0..6).map(|_| run_once()).collect::<Vec<_>>())).collect();
                hs.into_iter().flat_map(|h| h.join().unwrap_or_default()).collect()
            });
            if results.len() != 48 || results.iter().any(|r| r != &alone) {
                let bad = results.iter().filter(|r| *r != &alone).count();
                return failure("concurrent-replace-differs", format!("{} of {} concurrent executions of a file with three `replace` calls differ from the isolated run (lazy={})", bad, results.len(), lazy));
            }
            pass("concurrent-replace")
        }
        11 | 12 => {
            // debug attributes: two files with a `node` statement at the same place in the text
            // but with different variable names, executed alternately on one thread
            let lazy = i == 12;
            let texts = ["(module) @mod {\n  node def\n  node @mod.scope\n  attr (def) k = 1\n}\n", "(module) @mod {\n  node ref\n  node @mod.exits\n  attr (ref) k = 1\n}\n"];
            let source = "pass\n";
            let run = move |dsl: &str| -> Result<String, String> {
                let file = match load(dsl) {
                    Ok(Ok(f)) => f,
                    _ => return Err("rejected".into()),
                };
                let tree = pysrc::parse(source);
                let functions = Functions::stdlib();
                let globals = Variables::new();
                let config = ExecutionConfig::new(&functions, &globals).lazy(lazy).debug_attributes(Identifier::from("dbg_loc"), Identifier::from("dbg_var"), Identifier::from("dbg_match"));
                match call_lib(|| file.execute(&tree, source, &config, &NoCancellation)) {
                    Err(p) => Err(format!("panic: {}", p.message)),
                    Ok(Err(e)) => Err(format!("{}", e)),
                    Ok(Ok(g)) => Ok(g.pretty_print().to_string()),
                }
            };
            let mut alone = vec![];
            for t in texts {
                match std::thread::spawn(move || run(t)).join().unwrap_or(Err("thread panicked".into())) {
                    Ok(x) => alone.push(x),
                    Err(e) if e == "rejected" => return CaseOutcome::Discard("probe file rejected"),
                    Err(e) => return failure("probe-fails", e),
                }
            }
            for round in 0..3 {
                for (k, t) in texts.iter().enumerate() {
                    match run(t) {
                        Ok(x) if x == alone[k] => {}
                        Ok(x) => return failure("debug-attributes-depend-on-history", format!("with debug attributes (lazy={}), file {} in round {} of an alternating history gives\n{}\ninstead of\n{}", lazy, k, round, x, alone[k])),
                        Err(e) => return failure("probe-fails", e),
                    }
                }
            }
            pass("debug-attributes-independent-of-history")
        }
        15 | 16 => {
            // one loaded file visited through File::try_visit_matches in both modes, alternately
            let first_lazy = i == 16;
            let dsl = "(module) @m {\n  print @m\n}\n(expression_statement (identifier) @id) @stmt {\n  print @id, @stmt\n}\n(module (_)* @stmts) {\n  print @stmts\n}\n";
            let source = "a\nb\nf(x)\n";
            let tree = pysrc::parse(source);
            let visit = |file: &File, lazy: bool| -> Result<Vec<String>, String> {
                call_lib(|| {
                    let mut out = vec![];
                    let _ = file.try_visit_matches::<(), _>(&tree, source, lazy, |m| {
                        let loc = m.query_location();
                        let mut caps: Vec<String> = m.named_captures().map(|(name, q, nodes)| format!("{}{:?}={:?}", name, q, nodes.map(|n| (n.kind(), n.start_byte())).collect::<Vec<_>>())).collect();
                        caps.sort();
                        out.push(format!("({},{}) root={} {}", loc.row, loc.column, m.full_capture().start_byte(), caps.join(" ")));
                        Ok(())
                    });
                    out.sort();
                    out
                })
                .map_err(|p| format!("panic: {}", p.message))
            };
            let fresh = |lazy: bool| match load(dsl) {
                Ok(Ok(f)) => visit(&f, lazy),
                _ => Err("rejected".to_string()),
            };
            let file = match load(dsl) {
                Ok(Ok(f)) => f,
                _ => return CaseOutcome::Discard("probe file rejected"),
            };
            for (round, lazy) in [first_lazy, !first_lazy, first_lazy, !first_lazy].into_iter().enumerate() {
                let (got, want) = (visit(&file, lazy), fresh(lazy));
                if got != want {
                    return failure("visit-depends-on-history", format!("File::try_visit_matches(lazy={}) as visit {} of one loaded file (first visit lazy={}) reports {:?}, a freshly loaded file reports {:?}", lazy, round, first_lazy, got, want));
                }
                if let Err(e) = got {
                    return failure("probe-fails", e);
                }
            }
            pass("visits-in-both-modes")
        }
        17 | 18 => {
            // a failing stanza with a wildcard root, on trees whose first match differs in kind:
            // the error of each run names the node of that run
            let lazy = i == 18;
            let dsl = "(_ (identifier)) @r {\n  node n\n  attr (n) v = @r.nope\n}\n";
            let sources = ["a\n", "f(x)\n", "a.b\n", "def g(p):\n    pass\n"];
            let trees: Vec<Tree> = sources.iter().map(|s| pysrc::parse(s)).collect();
            let globals = BTreeMap::new();
            let mut alone = vec![];
            for (k, src) in sources.iter().enumerate() {
                let tree = &trees[k];
                let globals = &globals;
                let t = std::thread::scope(|s| {
                    s.spawn(move || match load(dsl) {
                        Ok(Ok(f)) => execute(&f, dsl, tree, src, globals, lazy, None),
                        _ => Transcript::Panic("rejected".into()),
                    })
                    .join()
                    .unwrap_or(Transcript::Panic("thread panicked".into()))
                });
                match &t {
                    Transcript::Panic(m) if m == "rejected" => return CaseOutcome::Discard("probe file rejected"),
                    Transcript::Panic(m) => return failure("panic", m.clone()),
                    _ => {}
                }
                alone.push(t);
            }
            if alone.iter().all(|t| !matches!(t, Transcript::Err { .. })) {
                return CaseOutcome::Discard("probe file does not fail");
            }
            let file = match load(dsl) {
                Ok(Ok(f)) => f,
                _ => return CaseOutcome::Discard("probe file rejected"),
            };
            for round in 0..2 {
                for k in [1usize, 0, 3, 2] {
                    let got = execute(&file, dsl, &trees[k], sources[k], &globals, lazy, None);
                    if got != alone[k] {
                        return failure("failure-depends-on-history", format!("round {} of a history over four trees (lazy={}): on `{}` the loaded file gives {:?}, a freshly loaded file gives {:?}", round, lazy, sources[k].escape_debug(), got.short(), alone[k].short()));
                    }
                }
            }
            pass("failures-on-different-trees")
        }
        13 | 14 => {
            // trees that come and go: positions of children asked for on many short-lived trees
            // (node ids are addresses, reused by later trees)
            let lazy = i == 14;
            let dsl = "(module (_) @c) {\n  node n\n  attr (n) idx = (named-child-index @c), txt = (source-text @c)\n}\n";
            let file = match load(dsl) {
                Ok(Ok(f)) => f,
                _ => return CaseOutcome::Discard("probe file rejected"),
            };
            let sources = ["a\nb\nc\n", "a;b\n", "x\n", "p\nq\n", "a;b;c;d\n", "f(x)\ng(y)\n", "pass\n", "# note\na\n# more\nb\n", "a\nb\nc\nd\ne\n", "if a:\n    b\nc\n"];
            let run = |file: &File, source: &str| -> Result<Vec<(String, String)>, String> {
                let tree = pysrc::parse(source);
                let index = TreeIndex::new(&tree);
                let functions = Functions::stdlib();
                let globals = Variables::new();
                let config = ExecutionConfig::new(&functions, &globals).lazy(lazy);
                match call_lib(|| file.execute(&tree, source, &config, &NoCancellation)) {
                    Err(p) => Err(format!("panic: {}", p.message)),
                    Ok(Err(e)) => Err(format!("{}", e)),
                    Ok(Ok(g)) => match observe(&g, &index) {
                        Ok(o) => {
                            let mut v: Vec<(String, String)> = o.nodes.iter().map(|n| (format!("{:?}", n.attrs.get("txt")), format!("{:?}", n.attrs.get("idx")))).collect();
                            v.sort();
                            Ok(v)
                        }
                        Err(e) => Err(e),
                    },
                }
            };
            // what tree-sitter itself says
            let expect = |source: &str| -> Vec<(String, String)> {
                let tree = pysrc::parse(source);
                let root = tree.root_node();
                let mut cursor = root.walk();
                let mut v: Vec<(String, String)> = root
                    .named_children(&mut cursor)
                    .enumerate()
                    .map(|(k, c)| (format!("{:?}", Some(CVal::Str(source[c.byte_range()].to_string()))), format!("{:?}", Some(CVal::Int(k as u32)))))
                    .collect();
                v.sort();
                v
            };
            for round in 0..3 {
                for source in sources {
                    let want = expect(source);
                    match run(&file, source) {
                        Ok(got) if got == want => {}
                        Ok(got) => return failure("result-depends-on-earlier-trees", format!("named-child-index on `{}` (lazy={}, round {} of a history over short-lived trees): {:?} instead of {:?}", source.escape_debug(), lazy, round, got, want)),
                        Err(e) => return failure("probe-fails", e),
                    }
                }
            }
            pass("short-lived-trees")
        }
        _ => {
            let lazy = i == 6;
            // the re-registered function is the last call of one execution and the first of the next
            let dsl = "(module) @m {\n  node @m.n\n  attr (@m.n) first = (probe)\n  attr (@m.n) p = (probe)\n}\n";
            let file = match load(dsl) {
                Ok(Ok(f)) => f,
                _ => return CaseOutcome::Discard("probe file rejected"),
            };
            let source = "pass\n";
            let tree = pysrc::parse(source);
            let index = TreeIndex::new(&tree);
            let mut functions = Functions::stdlib();
            functions.add(Identifier::from("probe"), Constant("one"));
            let globals = Variables::new();
            let mut seen = vec![];
            for round in 0..3 {
                if round == 1 {
                    functions.add(Identifier::from("probe"), Constant("two"));
                }
                if round == 2 {
                    functions.add(Identifier::from("probe"), Constant("three"));
                }
                let config = ExecutionConfig::new(&functions, &globals).lazy(lazy);
                match call_lib(|| file.execute(&tree, source, &config, &NoCancellation)) {
                    Err(p) => return failure(&p.signature(), p.message),
                    Ok(Err(e)) => return failure("probe-fails", format!("{}", e)),
                    Ok(Ok(g)) => match observe(&g, &index) {
                        Ok(o) => seen.push((o.nodes[0].attrs.get("first").cloned(), o.nodes[0].attrs.get("p").cloned())),
                        Err(e) => return failure("bad-graph", e),
                    },
                }
            }
            let s = |x: &str| Some(CVal::Str(x.into()));
            let want = vec![(s("one"), s("one")), (s("two"), s("two")), (s("three"), s("three"))];
            if seen != want {
                return failure("re-registered-function-not-used", format!("functions re-registered by the caller between executions (lazy={}): saw {:?}, expected {:?}", lazy, seen, want));
            }
            pass("re-registered-functions")
        }
    }
}

/// Known finding: the printed order of a set of syntax nodes depends on memory addresses.  The
/// same file is executed on many parses of the same source (all kept alive, with allocations of
/// varying size in between); the pretty-printed graph should be one and the same text.
fn pinned_address_order() -> CaseOutcome {
    let dsl = "(call function: (_) @f arguments: (_) @a) @c {\n  node @c.n\n  attr (@c.n) s = {@a, @f, @c}\n}\n";
    let source = "f(x)\ng(y)\n";
    let file = match load(dsl) {
        Ok(Ok(f)) => f,
        _ => return CaseOutcome::Discard("pinned program did not load"),
    };
    let mut keep: Vec<Tree> = vec![];
    let mut ballast: Vec<Vec<u8>> = vec![];
    let mut texts = std::collections::BTreeSet::new();
    for i in 0..64usize {
        ballast.push(vec![0u8; 16 + (i * 37) % 4096]);
        let tree = pysrc::parse(source);
        if let Transcript::Ok { pretty, .. } = execute(&file, dsl, &tree, source, &BTreeMap::new(), i % 2 == 1, None) {
            texts.insert(pretty);
        }
        keep.push(tree);
        if i % 3 == 0 {
            ballast.remove(0);
        }
    }
    if texts.len() > 1 {
        return CaseOutcome::Fail(Failure::new(
            "C12:address-ordered-set-text",
            format!("the same file on {} parses of the same source prints {} different graphs (the elements of a set of syntax nodes come in address order)", keep.len(), texts.len()),
            json!({"dsl": dsl, "source": source, "outputs": texts.iter().collect::<Vec<_>>()}),
        ));
    }
    CaseOutcome::Pass(CaseReport { fingerprint: 12, nontrivial: false, labels: vec!["pinned-address-order-not-observed".into()], counters: vec![], sample: None, evaluations: 64 })
}

pub fn spec(tier: &str) -> Spec {
    let mut s = Spec::new("C12", tier, 1_500, 15_000, 900);
    s.rule = "per case 1-3 generated files (valid and single-fault) x 1-3 trees. (a) every text is loaded twice (equal AST) and a rejected text whose diagnostic involves hash-ordered collections six times (one diagnostic); (b) the isolated result of every (file, tree, mode) is computed twice on fresh threads with freshly loaded files and must be identical in every observable form (pretty_print text, JSON value, observed graph incl. node numbering, or error text plain and pretty); (c) a history of 4-9 executions on the long-lived worker thread with the files loaded once - mixed files, trees and modes, a fifth of them cancelled at a random poll - where every result, cancelled or not, must equal the isolated one, then 8 concurrent threads sharing one &File, each equal to the isolated result; the caller's Variables are compared before / after every execution. a third of the history steps run on a fresh parse of the source that is dropped afterwards (compared by observed graph: node ids in the JSON form are addresses). (e) nineteen fixed probes (incl. one file executed with different caller globals in turn, 8 threads x 6 executions of a file with three `replace` calls, debug attributes of two files that share statement positions, named-child-index over short-lived trees against tree-sitter's own positions, File::try_visit_matches in both modes on one loaded file, a failing wildcard-root stanza over four trees): a diagnostic does not depend on the texts the thread loaded before; executions started from a caller-supplied function or from a match visitor (re-entrancy, strict / lazy inside strict / lazy) equal the isolated run; a function re-registered by the caller between executions is the one called. (d) 3 (quick) / 8 (thorough) child processes given the same seed must print identical transcripts (observed graphs, pretty output, error texts). evaluations = executions. Non-trivial: >=2 trees, >=2 successful isolated results, a graph with >=2 attributes. Distinct = fingerprint of (files, sources).".into();
    s.assumptions = vec![
        "thread interleavings are whatever the OS produces (all state is call-local; this part is a smoke check)".into(),
        "JSON syntax-node ids are per-parse handles: compared within one process on one Tree only".into(),
    ];
    s
}

pub fn run_check(tier: &str) -> i32 {
    let started = std::time::Instant::now();
    let spec = spec(tier);
    let thorough = tier == "thorough";
    let r0 = run_fixed(&spec, &[0usize], |_| pinned_address_order(), |_| vec![PINNED_TAG, 0]);
    let probes: Vec<usize> = (0..19).collect();
    let rp = run_fixed(&spec, &probes, |i| probe(*i), |i| vec![PROBE_TAG, *i as u32]);
    let r1 = merge_results(merge_results(r0, rp), run_tapes(&spec, case));
    let r2 = cross_process(&spec, if thorough { 8 } else { 3 }, if thorough { 400 } else { 120 });
    finish(&spec, merge_results(r1, r2), started)
}
