//! C17 — Graph, attribute and variable containers behave like their map/set models.
//!
//! Stateful model-based testing: an operation sequence (decoded from the tape) is interpreted
//! against the real containers and against BTreeMap/BTreeSet models; every return value is compared
//! and full scans are made every 10th operation and at the end.

use crate::engine::*;
use serde_json::{json, Value as J};
use std::collections::{BTreeMap, BTreeSet};
use tree_sitter_graph::graph::{Graph, GraphNodeRef, Value};
use tree_sitter_graph::{Identifier, Variables};

const NAMES: [&str; 6] = ["a", "b", "c", "kind", "x-y", "_z"];

fn gen_value(t: &mut Tape, depth: usize) -> Value {
    let k = if depth >= 2 { t.choose(4) } else { t.choose(6) };
    match k {
        0 => Value::Null,
        1 => Value::Boolean(t.chance(1, 2)),
        2 => Value::Integer(*t.pick(&[0u32, 1, 2, 7, u32::MAX])),
        3 => Value::String(t.pick(&["", "a", "b", "é", "a b"]).to_string()),
        4 => {
            let n = t.choose(3);
            Value::List((0..n).map(|_| gen_value(t, depth + 1)).collect())
        }
        _ => {
            let n = t.choose(3);
            Value::Set((0..n).map(|_| gen_value(t, depth + 1)).collect::<BTreeSet<_>>())
        }
    }
}

#[derive(Default, Clone)]
struct MNode {
    attrs: BTreeMap<String, Value>,
    edges: BTreeMap<usize, BTreeMap<String, Value>>,
    /// identity of every stored value, built by the generator (not by the library's `==`)
    attr_keys: BTreeMap<String, String>,
    edge_keys: BTreeMap<(usize, String), String>,
}

/// A value together with a key that is equal exactly for equal values: scalars by content, lists
/// element-wise, sets as sorted unique keys, syntax nodes by their pre-order number in the tree,
/// graph nodes by index.
fn gen_keyed(t: &mut Tape, depth: usize, syn: &[(tree_sitter_graph::graph::SyntaxNodeRef, usize)], gnodes: &[GraphNodeRef]) -> (Value, String) {
    let k = if depth >= 2 { t.choose(6) } else { t.choose(8) };
    match k {
        0 => (Value::Null, "null".into()),
        1 => {
            let b = t.chance(1, 2);
            (Value::Boolean(b), format!("b:{}", b))
        }
        2 => {
            let i = *t.pick(&[0u32, 1, 2, 7, u32::MAX]);
            (Value::Integer(i), format!("i:{}", i))
        }
        3 => {
            let s = t.pick(&["", "a", "b", "é", "a b"]).to_string();
            (Value::String(s.clone()), format!("s:{:?}", s))
        }
        4 if !syn.is_empty() => {
            let (r, pre) = syn[t.choose(syn.len())].clone();
            (Value::SyntaxNode(r), format!("syn:{}", pre))
        }
        5 if !gnodes.is_empty() => {
            let i = t.choose(gnodes.len());
            (Value::GraphNode(gnodes[i]), format!("gn:{}", i))
        }
        4 | 5 => (Value::Null, "null".into()),
        6 => {
            let n = t.choose(3);
            let items: Vec<(Value, String)> = (0..n).map(|_| gen_keyed(t, depth + 1, syn, gnodes)).collect();
            let key = format!("[{}]", items.iter().map(|x| x.1.clone()).collect::<Vec<_>>().join(","));
            (Value::List(items.into_iter().map(|x| x.0).collect()), key)
        }
        _ => {
            let n = t.choose(3);
            let items: Vec<(Value, String)> = (0..n).map(|_| gen_keyed(t, depth + 1, syn, gnodes)).collect();
            let mut keys: Vec<String> = items.iter().map(|x| x.1.clone()).collect();
            keys.sort();
            keys.dedup();
            (Value::Set(items.into_iter().map(|x| x.0).collect::<BTreeSet<_>>()), format!("{{{}}}", keys.join(",")))
        }
    }
}

fn fail(sig: &str, msg: String, log: &[String]) -> CaseOutcome {
    CaseOutcome::Fail(Failure::new(
        format!("C17:{}", sig),
        msg,
        json!({ "operations": log }),
    ))
}

fn scan_graph(graph: &Graph, model: &[MNode], log: &[String]) -> Option<CaseOutcome> {
    if graph.node_count() != model.len() {
        return Some(fail("node_count", format!("node_count {} != model {}", graph.node_count(), model.len()), log));
    }
    let refs: Vec<GraphNodeRef> = graph.iter_nodes().collect();
    if refs.len() != model.len() {
        return Some(fail("iter_nodes", format!("iter_nodes yields {} nodes, model {}", refs.len(), model.len()), log));
    }
    for (i, r) in refs.iter().enumerate() {
        if r.index() != i {
            return Some(fail("dense_index", format!("iter_nodes position {} has index {}", i, r.index()), log));
        }
        let node = &graph[*r];
        let m = &model[i];
        if node.edge_count() != m.edges.len() {
            return Some(fail("edge_count", format!("node {} edge_count {} != model {}", i, node.edge_count(), m.edges.len()), log));
        }
        let sinks: Vec<usize> = node.iter_edges().map(|(s, _)| s.index()).collect();
        let expected: Vec<usize> = m.edges.keys().copied().collect();
        if sinks != expected {
            return Some(fail("iter_edges", format!("node {} iter_edges sinks {:?} != model (ascending) {:?}", i, sinks, expected), log));
        }
        for (s, e) in node.iter_edges() {
            let got: BTreeMap<String, Value> = e.attributes.iter().map(|(k, v)| (k.to_string(), v.clone())).collect();
            if &got != &m.edges[&s.index()] {
                return Some(fail("edge_attrs", format!("edge {}->{} attrs {:?} != model {:?}", i, s.index(), got, m.edges[&s.index()]), log));
            }
        }
        let got: BTreeMap<String, Value> = node.attributes.iter().map(|(k, v)| (k.to_string(), v.clone())).collect();
        if got != m.attrs {
            return Some(fail("node_attrs", format!("node {} attrs {:?} != model {:?}", i, got, m.attrs), log));
        }
    }
    None
}

/// Graph / GraphNode / Edge / Attributes history.
fn graph_history(t: &mut Tape) -> CaseOutcome {
    // syntax nodes to use as attribute values: nested nodes of one kind that start at the same
    // position (`a + b + c`, `f()()`, `x.y.z`) are different values
    let tree = crate::pysrc::parse("a + b + c\nf()()\nx.y.z\n");
    let mut graph = Graph::new();
    let mut syn: Vec<(tree_sitter_graph::graph::SyntaxNodeRef, usize)> = vec![];
    {
        let mut stack = vec![tree.root_node()];
        let mut pre = 0usize;
        while let Some(n) = stack.pop() {
            if n.is_named() {
                syn.push((graph.add_syntax_node(n), pre));
            }
            pre += 1;
            for i in (0..n.child_count()).rev() {
                stack.push(n.child(i).unwrap());
            }
        }
    }
    let mut model: Vec<MNode> = vec![];
    let mut log: Vec<String> = vec![];
    let nops = 1 + t.choose(200);
    let mut max_edges = 0usize;
    let mut repeated_sink = false;
    let mut conflict = false;
    let sink_span = 2 + t.choose(14);
    // some nodes up front, and a hub that most edges start from, so that one node collects
    // more than 8 edges and leaves the inline small-vector
    let upfront = t.choose(17);
    for _ in 0..upfront {
        let r = graph.add_graph_node();
        log.push(format!("add_graph_node -> {}", r.index()));
        if r.index() != model.len() {
            return fail("add_graph_node", format!("new node has index {} but {} nodes existed", r.index(), model.len()), &log);
        }
        model.push(MNode::default());
    }
    // the graph as it is before any operation (it may be empty)
    if let Some(f) = scan_graph(&graph, &model, &log) {
        return f;
    }
    if graph.node_count() != model.len() {
        return fail("node_count", format!("node_count {} but {} nodes were added", graph.node_count(), model.len()), &log);
    }
    let hub_bias = t.choose(4); // 0: no hub
    for step in 0..nops {
        let op = if model.is_empty() { 0 } else { t.weighted(&[3, 10, 3, 4, 5, 3, 2]) };
        match op {
            0 => {
                let r = graph.add_graph_node();
                log.push(format!("add_graph_node -> {}", r.index()));
                if r.index() != model.len() {
                    return fail("add_graph_node", format!("new node has index {} but {} nodes existed", r.index(), model.len()), &log);
                }
                model.push(MNode::default());
            }
            1 => {
                // add_edge
                let mut src = t.choose(model.len());
                if hub_bias > 0 && t.chance(hub_bias as u32, 4) {
                    src = 0;
                }
                let dst = t.choose(model.len().min(sink_span));
                let refs: Vec<GraphNodeRef> = graph.iter_nodes().collect();
                let existed = model[src].edges.contains_key(&dst);
                let res = graph[refs[src]].add_edge(refs[dst]);
                log.push(format!("add_edge {}->{} -> {}", src, dst, if res.is_ok() { "Ok(new)" } else { "Err(existing)" }));
                match res {
                    Ok(e) => {
                        if existed {
                            return fail("add_edge", format!("add_edge {}->{} reported a new edge but it existed", src, dst), &log);
                        }
                        if e.attributes.iter().count() != 0 {
                            return fail("add_edge", "new edge has attributes".into(), &log);
                        }
                    }
                    Err(e) => {
                        if !existed {
                            return fail("add_edge", format!("add_edge {}->{} reported an existing edge but it is new", src, dst), &log);
                        }
                        repeated_sink = true;
                        let got: BTreeMap<String, Value> = e.attributes.iter().map(|(k, v)| (k.to_string(), v.clone())).collect();
                        if got != model[src].edges[&dst] {
                            return fail("add_edge", format!("existing edge {}->{} returned with attrs {:?}, model {:?}", src, dst, got, model[src].edges[&dst]), &log);
                        }
                    }
                }
                model[src].edges.entry(dst).or_default();
                max_edges = max_edges.max(model[src].edges.len());
            }
            2 => {
                // get_edge
                let src = t.choose(model.len());
                let dst = t.choose(model.len().min(sink_span + 2));
                let refs: Vec<GraphNodeRef> = graph.iter_nodes().collect();
                let got = graph[refs[src]].get_edge(refs[dst]);
                log.push(format!("get_edge {}->{} -> {}", src, dst, got.is_some()));
                match (got, model[src].edges.get(&dst)) {
                    (Some(e), Some(m)) => {
                        let a: BTreeMap<String, Value> = e.attributes.iter().map(|(k, v)| (k.to_string(), v.clone())).collect();
                        if &a != m {
                            return fail("get_edge", format!("get_edge {}->{} attrs {:?} != model {:?}", src, dst, a, m), &log);
                        }
                    }
                    (None, None) => {}
                    (g, m) => {
                        return fail("get_edge", format!("get_edge {}->{} is_some={} but model is_some={}", src, dst, g.is_some(), m.is_some()), &log);
                    }
                }
            }
            3 => {
                // get_edge_mut + attribute add
                let src = t.choose(model.len());
                let dst = t.choose(model.len().min(sink_span));
                let name = *t.pick(&NAMES);
                let refs: Vec<GraphNodeRef> = graph.iter_nodes().collect();
                let (value, key) = gen_keyed(t, 0, &syn, &refs);
                let node_m = &mut model[src];
                let (edges_m, edge_keys_m) = (&mut node_m.edges, &mut node_m.edge_keys);
                let prev_key = edge_keys_m.get(&(dst, name.to_string())).cloned();
                let got = graph[refs[src]].get_edge_mut(refs[dst]);
                match (got, edges_m.get_mut(&dst)) {
                    (Some(e), Some(m)) => {
                        let res = e.attributes.add(Identifier::from(name), value.clone());
                        log.push(format!("get_edge_mut {}->{} add {}={:?} -> {:?}", src, dst, name, value, res.is_ok()));
                        let prev = m.insert(name.to_string(), value.clone());
                        let expect_err = matches!(&prev_key, Some(p) if p != &key);
                        edge_keys_m.insert((dst, name.to_string()), key.clone());
                        if expect_err {
                            conflict = true;
                        }
                        match res {
                            Ok(()) if expect_err => return fail("attr_add", format!("edge attr {} changed from {:?} to {:?} without reporting a conflict", name, prev, value), &log),
                            Err(old) => {
                                if !expect_err {
                                    return fail("attr_add", format!("edge attr {}={:?} reported a conflict, previous {:?}", name, value, prev), &log);
                                }
                                if Some(&old) != prev.as_ref() {
                                    return fail("attr_add", format!("conflict returned old value {:?}, model {:?}", old, prev), &log);
                                }
                            }
                            _ => {}
                        }
                    }
                    (None, None) => log.push(format!("get_edge_mut {}->{} -> None", src, dst)),
                    (g, m) => {
                        return fail("get_edge_mut", format!("get_edge_mut {}->{} is_some={} but model is_some={}", src, dst, g.is_some(), m.is_some()), &log);
                    }
                }
            }
            4 => {
                // node attribute add
                let n = t.choose(model.len());
                let name = *t.pick(&NAMES);
                let refs: Vec<GraphNodeRef> = graph.iter_nodes().collect();
                let (value, key) = gen_keyed(t, 0, &syn, &refs);
                let res = graph[refs[n]].attributes.add(Identifier::from(name), value.clone());
                log.push(format!("node {} attr add {}={:?} -> {:?}", n, name, value, res.is_ok()));
                let prev = model[n].attrs.insert(name.to_string(), value.clone());
                let prev_key = model[n].attr_keys.insert(name.to_string(), key.clone());
                let expect_err = matches!(&prev_key, Some(p) if p != &key);
                if expect_err {
                    conflict = true;
                }
                match res {
                    Ok(()) if expect_err => return fail("attr_add", format!("node attr {} changed from {:?} to {:?} without reporting a conflict", name, prev, value), &log),
                    Err(old) => {
                        if !expect_err {
                            return fail("attr_add", format!("node attr {}={:?} reported a conflict, previous {:?}", name, value, prev), &log);
                        }
                        if Some(&old) != prev.as_ref() {
                            return fail("attr_add", format!("conflict returned old value {:?}, model {:?}", old, prev), &log);
                        }
                    }
                    _ => {}
                }
            }
            5 => {
                // attribute get
                let n = t.choose(model.len());
                let name = *t.pick(&NAMES);
                let refs: Vec<GraphNodeRef> = graph.iter_nodes().collect();
                let got = graph[refs[n]].attributes.get(name).cloned();
                log.push(format!("node {} attr get {} -> {:?}", n, name, got));
                if got.as_ref() != model[n].attrs.get(name) {
                    return fail("attr_get", format!("node {} attr {} is {:?}, model {:?}", n, name, got, model[n].attrs.get(name)), &log);
                }
            }
            _ => {
                if let Some(f) = scan_graph(&graph, &model, &log) {
                    return f;
                }
            }
        }
        if step % 10 == 9 {
            if let Some(f) = scan_graph(&graph, &model, &log) {
                return f;
            }
        }
    }
    if let Some(f) = scan_graph(&graph, &model, &log) {
        return f;
    }
    let mut labels = vec!["graph-history".to_string()];
    if max_edges > 8 {
        labels.push("spilled(>8 edges)".into());
    }
    if repeated_sink {
        labels.push("repeated-sink".into());
    }
    if conflict {
        labels.push("attr-conflict".into());
    }
    let nontrivial = max_edges > 8 && repeated_sink && conflict;
    CaseOutcome::Pass(CaseReport {
        fingerprint: fingerprint(&log),
        nontrivial,
        labels,
        counters: vec![],
        sample: Some(json!({"kind": "graph-history", "operations": log.iter().take(40).collect::<Vec<_>>(), "total_ops": log.len()})),
        evaluations: 1,
    })
}

type VModel = BTreeMap<String, Value>;

fn vars_iter(v: &Variables) -> VModel {
    v.iter().map(|(k, v)| (k.to_string(), v.clone())).collect()
}

/// Variables history: an outer set, then a nested set living on top of it, then the outer set
/// again after the nested one is gone.
fn variables_history(t: &mut Tape) -> CaseOutcome {
    let mut log: Vec<String> = vec![];
    let mut outer = Variables::new();
    let mut outer_m: VModel = VModel::new();
    let mut nested_saw_outer = false;
    let mut removed = false;
    let mut three_levels = false;

    fn step(
        t: &mut Tape,
        vars: &mut Variables,
        model: &mut VModel,
        outer_m: Option<&VModel>,
        log: &mut Vec<String>,
        which: &str,
        nested_saw_outer: &mut bool,
        removed: &mut bool,
    ) -> Option<CaseOutcome> {
        let name = *t.pick(&NAMES);
        match t.weighted(&[6, 5, 2, 1, 3, 2]) {
            0 => {
                let value = gen_value(t, 1);
                let res = vars.add(Identifier::from(name), value.clone());
                log.push(format!("{}.add {}={:?} -> {}", which, name, value, res.is_ok()));
                let in_own = model.contains_key(name);
                let only_outer = !in_own && outer_m.map(|o| o.contains_key(name)).unwrap_or(false);
                if only_outer {
                    // unspecified whether shadowing an outer binding is allowed: accept both,
                    // follow the implementation
                    if res.is_ok() {
                        model.insert(name.to_string(), value);
                    }
                } else if in_own {
                    if res.is_ok() {
                        return Some(fail("vars_add", format!("{}.add {} succeeded although the name was bound", which, name), log));
                    }
                } else {
                    if res.is_err() {
                        return Some(fail("vars_add", format!("{}.add {} failed although the name was free", which, name), log));
                    }
                    model.insert(name.to_string(), value);
                }
            }
            1 => {
                let got = vars.get(&Identifier::from(name)).cloned();
                log.push(format!("{}.get {} -> {:?}", which, name, got));
                let expected = model.get(name).or_else(|| outer_m.and_then(|o| o.get(name)));
                if model.get(name).is_none() && expected.is_some() {
                    *nested_saw_outer = true;
                }
                if got.as_ref() != expected {
                    return Some(fail("vars_get", format!("{}.get {} is {:?}, model {:?}", which, name, got, expected), log));
                }
            }
            2 => {
                vars.remove(&Identifier::from(name));
                log.push(format!("{}.remove {}", which, name));
                if model.remove(name).is_some() {
                    *removed = true;
                }
            }
            3 => {
                vars.clear();
                log.push(format!("{}.clear", which));
                model.clear();
            }
            4 => {
                let got = vars_iter(vars);
                log.push(format!("{}.iter -> {} entries", which, got.len()));
                if &got != model {
                    return Some(fail("vars_iter", format!("{}.iter yields {:?}, model {:?}", which, got, model), log));
                }
            }
            _ => {
                let got = vars.is_empty();
                log.push(format!("{}.is_empty -> {}", which, got));
                if got != model.is_empty() {
                    return Some(fail("vars_is_empty", format!("{}.is_empty is {}, model {}", which, got, model.is_empty()), log));
                }
            }
        }
        None
    }

    let n1 = t.choose(30);
    for _ in 0..n1 {
        if let Some(f) = step(t, &mut outer, &mut outer_m, None, &mut log, "outer", &mut nested_saw_outer, &mut removed) {
            return f;
        }
    }
    let outer_before = vars_iter(&outer);
    {
        let mut nested = Variables::nested(&outer);
        let mut nested_m = VModel::new();
        log.push("nested = Variables::nested(&outer)".into());
        let n2 = 1 + t.choose(60);
        for _ in 0..n2 {
            if let Some(f) = step(t, &mut nested, &mut nested_m, Some(&outer_m), &mut log, "nested", &mut nested_saw_outer, &mut removed) {
                return f;
            }
            // the outer set never changes while the nested set is used
            let now = vars_iter(&outer);
            if now != outer_before {
                return fail("vars_outer_changed", format!("outer set changed from {:?} to {:?} through the nested set", outer_before, now), &log);
            }
        }
        for name in NAMES {
            let got = nested.get(&Identifier::from(name)).cloned();
            let expected = nested_m.get(name).or_else(|| outer_m.get(name));
            if got.as_ref() != expected {
                return fail("vars_get", format!("nested.get {} is {:?}, model {:?}", name, got, expected), &log);
            }
        }
        // a third level on top of the nested set: sees both, changes neither
        if t.chance(1, 2) {
            let nested_before = vars_iter(&nested);
            let mut visible: VModel = outer_m.clone();
            for (k, v) in &nested_m {
                visible.insert(k.clone(), v.clone());
            }
            {
                let mut inner = Variables::nested(&nested);
                let mut inner_m = VModel::new();
                log.push("inner = Variables::nested(&nested)".into());
                three_levels = true;
                let n3 = 1 + t.choose(40);
                for _ in 0..n3 {
                    if let Some(f) = step(t, &mut inner, &mut inner_m, Some(&visible), &mut log, "inner", &mut nested_saw_outer, &mut removed) {
                        return f;
                    }
                    if vars_iter(&nested) != nested_before || vars_iter(&outer) != outer_before {
                        return fail("vars_outer_changed", "an enclosing set changed through the innermost set".to_string(), &log);
                    }
                }
                for name in NAMES {
                    let got = inner.get(&Identifier::from(name)).cloned();
                    let expected = inner_m.get(name).or_else(|| visible.get(name));
                    if got.as_ref() != expected {
                        return fail("vars_get", format!("inner.get {} is {:?}, model {:?}", name, got, expected), &log);
                    }
                }
            }
            log.push("drop(inner)".into());
            if vars_iter(&nested) != nested_before {
                return fail("vars_outer_changed", "the nested set changed during the innermost set's lifetime".to_string(), &log);
            }
            // the middle set is still usable
            for _ in 0..t.choose(6) {
                if let Some(f) = step(t, &mut nested, &mut nested_m, Some(&outer_m), &mut log, "nested", &mut nested_saw_outer, &mut removed) {
                    return f;
                }
            }
        }
    }
    log.push("drop(nested)".into());
    let after = vars_iter(&outer);
    if after != outer_before || after != outer_m {
        return fail("vars_outer_changed", format!("outer set is {:?} after the nested set's lifetime, was {:?}", after, outer_before), &log);
    }
    let n3 = t.choose(10);
    for _ in 0..n3 {
        if let Some(f) = step(t, &mut outer, &mut outer_m, None, &mut log, "outer", &mut nested_saw_outer, &mut removed) {
            return f;
        }
    }
    let mut labels = vec!["variables-history".to_string()];
    if three_levels {
        labels.push("three-levels".into());
    }
    if nested_saw_outer {
        labels.push("nested-read-outer".into());
    }
    if removed {
        labels.push("removed".into());
    }
    CaseOutcome::Pass(CaseReport {
        fingerprint: fingerprint(&log),
        nontrivial: nested_saw_outer && log.len() >= 8,
        labels,
        counters: vec![],
        sample: Some(json!({"kind": "variables-history", "operations": log.iter().take(40).collect::<Vec<_>>(), "total_ops": log.len()})),
        evaluations: 1,
    })
}

pub fn case(tape: &[u32]) -> CaseOutcome {
    let mut t = Tape::new(tape);
    if t.chance(1, 4) {
        variables_history(&mut t)
    } else {
        graph_history(&mut t)
    }
}

pub fn spec(tier: &str) -> Spec {
    let mut s = Spec::new("C17", tier, 200_000, 4_000_000, 900);
    s.rule = "operation sequences (<=200 ops) decoded from proptest-generated choice tapes and run against the real Graph/GraphNode/Edge/Attributes (3 of 4 cases) or Variables::new/nested (1 of 4) and a BTreeMap model; every return value compared, full scans every 10th op and at the end. Non-trivial graph history: some node exceeded 8 edges (left the inline small-vector), an existing sink was re-added and an attribute add conflicted; non-trivial variables history: >=8 ops and the nested set read a binding of the outer set. Distinct = fingerprint of the operation log.".into();
    s.assumptions = vec![
        "adding to a nested Variables a name bound only in the outer set may return Ok or Err (unspecified); the outer set must be unchanged either way".into(),
        "Attributes::add stores the new value and returns Err(old) exactly when a different value was present (documented, pinned by tests/it/graph.rs can_overwrite_attributes)".into(),
    ];
    s
}

pub fn run(tier: &str) -> i32 {
    let started = std::time::Instant::now();
    let spec = spec(tier);
    let result = run_tapes(&spec, case);
    finish(&spec, result, started)
}

#[allow(dead_code)]
pub fn unused(_: J) {}
