//! C04 — scoped variables follow syntax-node identity and inherit only when declared
//! (reference model with exact node identity; both modes on the order-insensitive fragment,
//! strict mode additionally with mutable scoped variables).

use super::common::*;
use crate::dsl::GProg;
use crate::engine::*;
use crate::gen::GenCfg;
use crate::interp::Outcome;
use crate::lib_api::*;
use crate::pysrc;
use crate::tree::TreeIndex;
use serde_json::json;

/// Sources with deep nesting, same-range parent/child chains and many nodes of one kind.
pub const SHAPES: &[&str] = &[
    "x",
    "pass",
    "f(x)",
    "a.b",
    "def outer():\n    def inner():\n        def innermost():\n            pass\n",
    "class A:\n    class B:\n        def m(self):\n            return self.x\n",
    "def f(a):\n    if a:\n        for i in a:\n            while i:\n                g(i)\n",
    "a\nb\nc\nd\ne\nf\n",
    "f(g(h(i(j))))\n",
    "x = y\n",
];

/// kinds a definition can be attached to: (pattern, capture)
const DEFINERS: &[(&str, &str)] = &[
    ("(module) @m", "m"),
    ("(function_definition) @d", "d"),
    ("(class_definition) @c", "c"),
    ("(block) @b", "b"),
    ("(expression_statement) @s", "s"),
    ("(call) @c", "c"),
    ("(attribute) @a", "a"),
    ("(argument_list) @al", "al"),
    ("(if_statement) @i", "i"),
    ("(identifier) @x", "x"),
];

/// ways to reach an identifier: (pattern, capture, is a list capture)
const READERS: &[(&str, &str, bool)] = &[
    ("(identifier) @x", "x", false),
    ("(identifier) @y @_z", "y", false),
    ("(call function: (identifier) @f)", "f", false),
    ("(attribute attribute: (identifier) @a)", "a", false),
    ("(attribute object: (identifier) @o)", "o", false),
    ("(assignment left: (identifier) @l)", "l", false),
    ("(parameters (identifier)* @ps)", "ps", true),
    ("(dotted_name (identifier)+ @parts)", "parts", true),
    ("(argument_list (identifier)* @args)", "args", true),
    ("(module (expression_statement (identifier) @id))", "id", false),
    ("(function_definition name: (identifier) @n)", "n", false),
    ("((identifier) @x (#match? @x \"^[a-c]\"))", "x", false),
    ("(return_statement (identifier)? @r)", "r", false),
];

/// A scenario program: definitions of a few scoped names on several kinds of nodes (so that
/// identifiers have several defining ancestors), readers that reach identifiers through many
/// different query paths, list elements and stored links.
/// `dup`: one in `dup` repeated definer kinds is kept (a deliberate double definition).
pub fn scenario(t: &mut Tape, strict_only: bool, dup: u32) -> (GProg, std::collections::BTreeSet<&'static str>) {
    use crate::dsl::*;
    let mut ids = Ids::default();
    let mut features = std::collections::BTreeSet::new();
    let mut items: Vec<Item> = vec![];
    let nnames = 1 + t.choose(3);
    let names: Vec<String> = (0..nnames).map(|i| ["scope", "val", "something", "ref"][i].to_string() + if t.chance(1, 4) { "-x" } else { "" }).collect();
    let mut definer_stanzas: Vec<Item> = vec![];
    // (is the module's definer, item); setters for mutable names, used by the phased order
    let mut definer_is_outer: Vec<bool> = vec![];
    let mut setter_stanzas: Vec<Item> = vec![];
    for name in &names {
        let inherited = t.chance(3, 5);
        if inherited {
            items.push(Item::Inherit { name: name.clone() });
            features.insert("inherit");
        }
        let ndef = 1 + t.weighted(&[2, 3, 3, 2]);
        let mut kinds: Vec<usize> = vec![];
        for _ in 0..ndef {
            let k = t.choose(DEFINERS.len());
            if !kinds.contains(&k) || t.chance(1, dup) {
                kinds.push(k); // a repeated kind is a deliberate double definition
            }
        }
        if inherited && t.chance(2, 3) && !kinds.contains(&0) {
            kinds.insert(0, 0);
        }
        // a name that is not inherited, defined on the module: readers below must not see it
        if !inherited && t.chance(1, 4) && !kinds.contains(&0) {
            kinds.insert(0, 0);
            features.insert("undeclared-name-defined-on-the-module");
        }
        for k in kinds {
            let (pattern, cap) = DEFINERS[k];
            let c = |ids: &mut Ids| Expr::Capture { id: ids.next(), name: cap.to_string() };
            let value = match t.weighted(&[2, 2, 1, 4]) {
                0 => Expr::Str(format!("{}@{}", name, k)),
                1 => c(&mut ids),
                // a variable whose own value is #null is still the node's own variable
                2 => Expr::Null,
                _ => Expr::Call {
                    func: "format".into(),
                    args: vec![
                        Expr::Str(format!("{}@{}:{{}}:{{}}:{{}}", name, k)),
                        Expr::Call { func: "node-type".into(), args: vec![c(&mut ids)] },
                        Expr::Call { func: "start-row".into(), args: vec![c(&mut ids)] },
                        Expr::Call { func: "start-column".into(), args: vec![c(&mut ids)] },
                    ],
                },
            };
            let mutable = strict_only && t.chance(1, 5);
            // the defining node is named directly or through a local that holds it
            let mut body = vec![];
            let scope = if t.chance(1, 3) {
                features.insert("definition-through-local");
                body.push(Stmt::Let { id: ids.next(), var: VarRef::Plain { id: ids.next(), name: "holder".into() }, value: c(&mut ids) });
                Expr::Var { id: ids.next(), name: "holder".into() }
            } else {
                c(&mut ids)
            };
            let var = VarRef::Scoped { id: ids.next(), scope, name: name.clone() };
            let stmt = if mutable { Stmt::Var { id: ids.next(), var, value } } else { Stmt::Let { id: ids.next(), var, value } };
            body.push(stmt);
            if mutable && t.chance(1, 2) {
                body.push(Stmt::Set { id: ids.next(), var: VarRef::Scoped { id: ids.next(), scope: c(&mut ids), name: name.clone() }, value: Expr::Str("reassigned".into()) });
                features.insert("scoped-set");
            }
            definer_stanzas.push(Item::Stanza(Stanza { id: ids.next(), query: pattern.to_string(), captures: vec![Cap { name: cap.to_string(), quant: Quant::One }], body, pool: usize::MAX }));
            definer_is_outer.push(k == 0);
            if mutable && t.chance(1, 2) {
                let set = Stmt::Set { id: ids.next(), var: VarRef::Scoped { id: ids.next(), scope: c(&mut ids), name: name.clone() }, value: Expr::Str(format!("late-{}", name)) };
                setter_stanzas.push(Item::Stanza(Stanza { id: ids.next(), query: pattern.to_string(), captures: vec![Cap { name: cap.to_string(), quant: Quant::One }], body: vec![set], pool: usize::MAX }));
            }
        }
    }
    // a shorthand whose body looks the name up on the node it is given: `attribute viash = nd => sh_val = nd.val`
    let via_shorthand: Option<String> = if t.chance(1, 4) {
        let name = names[t.choose(names.len())].clone();
        features.insert("read-inside-a-shorthand-body");
        let body_read = Expr::Scoped { id: ids.next(), scope: Box::new(Expr::Var { id: ids.next(), name: "nd".into() }), name: name.clone() };
        items.push(Item::Shorthand { id: ids.next(), name: "viash".into(), var_id: ids.next(), var: "nd".into(), attrs: vec![Attr { name: "sh_read".into(), value: Some(body_read) }] });
        Some(name)
    } else {
        None
    };
    // nested scopes on nodes of one kind that start at the same position: every attribute node
    // remembers its object, and a second stanza defines a variable on that object through it
    if t.chance(1, 4) {
        features.insert("definition-through-a-nested-scope");
        let at = |ids: &mut Ids| Expr::Capture { id: ids.next(), name: "at".into() };
        let remember = Stmt::Let { id: ids.next(), var: VarRef::Scoped { id: ids.next(), scope: at(&mut ids), name: "objnode".into() }, value: Expr::Capture { id: ids.next(), name: "ob".into() } };
        definer_stanzas.push(Item::Stanza(Stanza { id: ids.next(), query: "(attribute object: (_) @ob) @at".into(), captures: vec![Cap { name: "ob".into(), quant: Quant::One }, Cap { name: "at".into(), quant: Quant::One }], body: vec![remember], pool: usize::MAX }));
        definer_is_outer.push(true);
        let nested = Expr::Scoped { id: ids.next(), scope: Box::new(at(&mut ids)), name: "objnode".into() };
        let define = Stmt::Let { id: ids.next(), var: VarRef::Scoped { id: ids.next(), scope: nested, name: "owner".into() }, value: Expr::Call { func: "source-text".into(), args: vec![at(&mut ids)] } };
        definer_stanzas.push(Item::Stanza(Stanza { id: ids.next(), query: "(attribute) @at".into(), captures: vec![Cap { name: "at".into(), quant: Quant::One }], body: vec![define], pool: usize::MAX }));
        definer_is_outer.push(false);
    }
    // a definer whose definitions all sit in a `for` body: every top-level statement of the
    // module gets the name through the loop variable
    let mut loopdef_reader: Option<Item> = None;
    if t.chance(1, 5) {
        // a name of its own, inherited, defined nowhere else
        let name = "loopdef".to_string();
        items.push(Item::Inherit { name: name.clone() });
        let rd = Stmt::AttrNode {
            id: ids.next(),
            node: Expr::Scoped { id: ids.next(), scope: Box::new(Expr::Capture { id: ids.next(), name: "lx".into() }), name: "n".into() },
            attrs: vec![Attr { name: "from_loop".into(), value: Some(Expr::Scoped { id: ids.next(), scope: Box::new(Expr::Capture { id: ids.next(), name: "lx".into() }), name: name.clone() }) }],
        };
        loopdef_reader = Some(Item::Stanza(Stanza { id: ids.next(), query: "(identifier) @lx".into(), captures: vec![Cap { name: "lx".into(), quant: Quant::One }], body: vec![rd], pool: usize::MAX }));
        features.insert("definition-inside-a-for-body");
        let body = vec![Stmt::For {
            id: ids.next(),
            var_id: ids.next(),
            var: "st".into(),
            value: Expr::Capture { id: ids.next(), name: "stmts".into() },
            body: vec![Stmt::Let { id: ids.next(), var: VarRef::Scoped { id: ids.next(), scope: Expr::Var { id: ids.next(), name: "st".into() }, name: name.clone() }, value: Expr::Call { func: "format".into(), args: vec![Expr::Str(format!("{}@stmt:{{}}", name)), Expr::Call { func: "start-row".into(), args: vec![Expr::Var { id: ids.next(), name: "st".into() }] }] } }],
        }];
        definer_stanzas.push(Item::Stanza(Stanza { id: ids.next(), query: "(module (_)* @stmts)".into(), captures: vec![Cap { name: "stmts".into(), quant: Quant::Star }], body, pool: usize::MAX }));
        definer_is_outer.push(true);
    }
    // a definition whose value is the same name on another node: the callee identifier of a call
    // takes over what the call node has
    if t.chance(1, 5) {
        let name = names[t.choose(names.len())].clone();
        features.insert("value-is-the-same-name-on-another-node");
        let value = Expr::Scoped { id: ids.next(), scope: Box::new(Expr::Capture { id: ids.next(), name: "cl".into() }), name: name.clone() };
        let value = if t.chance(1, 3) { Expr::List(vec![value]) } else { value };
        let copy = Stmt::Let { id: ids.next(), var: VarRef::Scoped { id: ids.next(), scope: Expr::Capture { id: ids.next(), name: "fn".into() }, name: name.clone() }, value };
        definer_stanzas.push(Item::Stanza(Stanza { id: ids.next(), query: "(call function: (identifier) @fn) @cl".into(), captures: vec![Cap { name: "fn".into(), quant: Quant::One }, Cap { name: "cl".into(), quant: Quant::One }], body: vec![copy], pool: usize::MAX }));
        definer_is_outer.push(false);
    }
    // a definer that puts one name on two captured nodes of a match
    if t.chance(1, 4) {
        let name = names[t.choose(names.len())].clone();
        features.insert("definition-on-two-nodes-of-one-match");
        let mut body = vec![];
        for cap in ["o", "a"] {
            body.push(Stmt::Let { id: ids.next(), var: VarRef::Scoped { id: ids.next(), scope: Expr::Capture { id: ids.next(), name: cap.into() }, name: name.clone() }, value: Expr::Str(format!("{}@pair-{}", name, cap)) });
        }
        definer_stanzas.push(Item::Stanza(Stanza { id: ids.next(), query: "(attribute object: (identifier) @o attribute: (identifier) @a)".into(), captures: vec![Cap { name: "o".into(), quant: Quant::One }, Cap { name: "a".into(), quant: Quant::One }], body, pool: usize::MAX }));
        definer_is_outer.push(false);
        // and a second stanza with the same pattern that defines it on the first node again: an
        // error whichever of the two stanzas comes first
        if t.chance(1, dup.min(3)) {
            features.insert("duplicate-definition-from-a-stanza-with-the-same-pattern");
            let again = Stmt::Let { id: ids.next(), var: VarRef::Scoped { id: ids.next(), scope: Expr::Capture { id: ids.next(), name: "o".into() }, name: name.clone() }, value: Expr::Str(format!("{}@pair-again", name)) };
            definer_stanzas.push(Item::Stanza(Stanza { id: ids.next(), query: "(attribute object: (identifier) @o attribute: (identifier) @_a)".into(), captures: vec![Cap { name: "o".into(), quant: Quant::One }, Cap { name: "_a".into(), quant: Quant::One }], body: vec![again], pool: usize::MAX }));
            definer_is_outer.push(false);
        }
    }
    // every identifier gets a graph node to hang the probes on
    let base = Item::Stanza(Stanza {
        id: ids.next(),
        query: "(identifier) @id".into(),
        captures: vec![Cap { name: "id".into(), quant: Quant::One }],
        body: vec![Stmt::Node { id: ids.next(), var: VarRef::Scoped { id: ids.next(), scope: Expr::Capture { id: ids.next(), name: "id".into() }, name: "n".into() } }],
        pool: usize::MAX,
    });
    // links: the attribute's name identifier remembers its object identifier
    let with_links = t.chance(1, 2);
    let link = Item::Stanza(Stanza {
        id: ids.next(),
        query: "(attribute object: (identifier) @o attribute: (identifier) @a)".into(),
        captures: vec![Cap { name: "o".into(), quant: Quant::One }, Cap { name: "a".into(), quant: Quant::One }],
        body: vec![Stmt::Let { id: ids.next(), var: VarRef::Scoped { id: ids.next(), scope: Expr::Capture { id: ids.next(), name: "a".into() }, name: "obj".into() }, value: Expr::Capture { id: ids.next(), name: "o".into() } }],
        pool: usize::MAX,
    });
    // a definition whose scope is a local holding a node fetched from another scoped variable:
    // `let target = @a.obj  let target.vialink = ..` puts `vialink` on the object identifier
    let via_link_def = with_links && t.chance(1, 2);
    let mut via_link_stanzas: Vec<Item> = vec![];
    if via_link_def {
        features.insert("definition-through-stored-link");
        let fetch = Expr::Scoped { id: ids.next(), scope: Box::new(Expr::Capture { id: ids.next(), name: "a".into() }), name: "obj".into() };
        let body = vec![
            Stmt::Let { id: ids.next(), var: VarRef::Plain { id: ids.next(), name: "target".into() }, value: fetch },
            Stmt::Let { id: ids.next(), var: VarRef::Scoped { id: ids.next(), scope: Expr::Var { id: ids.next(), name: "target".into() }, name: "vialink".into() }, value: Expr::Call { func: "source-text".into(), args: vec![Expr::Capture { id: ids.next(), name: "a".into() }] } },
        ];
        via_link_stanzas.push(Item::Stanza(Stanza { id: ids.next(), query: "(attribute attribute: (identifier) @a)".into(), captures: vec![Cap { name: "a".into(), quant: Quant::One }], body, pool: usize::MAX }));
        let read = Stmt::AttrNode {
            id: ids.next(),
            node: Expr::Scoped { id: ids.next(), scope: Box::new(Expr::Capture { id: ids.next(), name: "o".into() }), name: "n".into() },
            attrs: vec![Attr { name: "via_link".into(), value: Some(Expr::Scoped { id: ids.next(), scope: Box::new(Expr::Capture { id: ids.next(), name: "o".into() }), name: "vialink".into() }) }],
        };
        via_link_stanzas.push(Item::Stanza(Stanza { id: ids.next(), query: "(attribute object: (identifier) @o)".into(), captures: vec![Cap { name: "o".into(), quant: Quant::One }], body: vec![read], pool: usize::MAX }));
    }
    // phased order (strict only): outer definitions, readers, nearer definitions and late
    // assignments, readers again - a read may come before the definition that should win later
    let phased = strict_only && t.chance(1, 2);
    let mut reader_stanzas: Vec<Item> = vec![];
    let nreaders = 1 + t.choose(5);
    let first_batch = nreaders;
    let nreaders = if phased { nreaders + 1 + t.choose(4) } else { nreaders };
    for ri in 0..nreaders {
        let (pattern, cap, is_list) = READERS[t.choose(READERS.len())];
        let name = names[t.choose(names.len())].clone();
        let cq = match crate::pool::compile(pattern) {
            Some(c) => c,
            None => continue,
        };
        let use_shorthand = via_shorthand.as_ref() == Some(&name) && t.chance(1, 2);
        let probe = |ids: &mut Ids, target: Expr, via_link: bool| -> Stmt {
            if use_shorthand && !via_link {
                // the attribute is the shorthand, applied to the node itself
                let node = Expr::Scoped { id: ids.next(), scope: Box::new(target.clone()), name: "n".into() };
                return Stmt::AttrNode { id: ids.next(), node, attrs: vec![Attr { name: "viash".into(), value: Some(target) }] };
            }
            let scope = if via_link { Expr::Scoped { id: ids.next(), scope: Box::new(target.clone()), name: "obj".into() } } else { target.clone() };
            let node = Expr::Scoped { id: ids.next(), scope: Box::new(target), name: "n".into() };
            Stmt::AttrNode { id: ids.next(), node, attrs: vec![Attr { name: format!("r{}_{}", ri, name.replace('-', "_")), value: Some(Expr::Scoped { id: ids.next(), scope: Box::new(scope), name: name.clone() }) }] }
        };
        let via_link = with_links && cap == "a" && t.chance(2, 3);
        if via_link {
            features.insert("read-through-stored-link");
        }
        // sometimes the value goes through a local that is also printed
        let through_local = t.chance(1, 4);
        let body = if is_list && t.chance(1, 6) {
            // the list capture itself as a scope: a list is no syntax node, however many
            // elements it has - an error in both modes
            features.insert("list-capture-used-as-a-scope");
            let target = Expr::Capture { id: ids.next(), name: cap.to_string() };
            vec![probe(&mut ids, target, false)]
        } else if !is_list && !via_link && t.chance(1, 10) {
            // the read is the direct argument of a `print` and appears nowhere else
            features.insert("read-only-in-a-print");
            let read = Expr::Scoped { id: ids.next(), scope: Box::new(Expr::Capture { id: ids.next(), name: cap.to_string() }), name: name.clone() };
            let read = if cq.captures.iter().any(|c| c.name == cap && c.quant == Quant::Opt) {
                vec![Stmt::If { id: ids.next(), arms: vec![IfArm { id: ids.next(), conds: vec![Cond::Some(ids.next(), Expr::Capture { id: ids.next(), name: cap.to_string() })], body: vec![Stmt::Print { id: ids.next(), values: vec![read] }] }] }]
            } else {
                vec![Stmt::Print { id: ids.next(), values: vec![read] }]
            };
            read
        } else if is_list {
            features.insert("read-through-list-element");
            let var = format!("e{}", ri);
            vec![Stmt::For { id: ids.next(), var_id: ids.next(), var: var.clone(), value: Expr::Capture { id: ids.next(), name: cap.to_string() }, body: { let target = Expr::Var { id: ids.next(), name: var }; vec![probe(&mut ids, target, false)] } }]
        } else if cq.captures.iter().any(|c| c.name == cap && c.quant == Quant::Opt) {
            features.insert("read-through-optional-capture");
            vec![Stmt::If { id: ids.next(), arms: vec![IfArm { id: ids.next(), conds: vec![Cond::Some(ids.next(), Expr::Capture { id: ids.next(), name: cap.to_string() })], body: { let target = Expr::Capture { id: ids.next(), name: cap.to_string() }; vec![probe(&mut ids, target, false)] } }] }]
        } else if through_local && !via_link {
            features.insert("read-held-in-a-printed-local");
            let read = Expr::Scoped { id: ids.next(), scope: Box::new(Expr::Capture { id: ids.next(), name: cap.to_string() }), name: name.clone() };
            let held = format!("held{}", ri);
            let node = Expr::Scoped { id: ids.next(), scope: Box::new(Expr::Capture { id: ids.next(), name: cap.to_string() }), name: "n".into() };
            vec![
                Stmt::Let { id: ids.next(), var: VarRef::Plain { id: ids.next(), name: held.clone() }, value: read },
                Stmt::Print { id: ids.next(), values: vec![Expr::Var { id: ids.next(), name: held.clone() }] },
                Stmt::AttrNode { id: ids.next(), node, attrs: vec![Attr { name: format!("r{}_{}", ri, name.replace('-', "_")), value: Some(Expr::Var { id: ids.next(), name: held }) }] },
            ]
        } else {
            let target = Expr::Capture { id: ids.next(), name: cap.to_string() };
            vec![probe(&mut ids, target, via_link)]
        };
        reader_stanzas.push(Item::Stanza(Stanza { id: ids.next(), query: pattern.to_string(), captures: cq.captures.clone(), body, pool: usize::MAX }));
    }
    if let Some(r) = loopdef_reader {
        reader_stanzas.push(r);
    }
    // order: definers, base, link, readers; outside the fragment any order (strict may then fail)
    let mut stanzas: Vec<Item> = vec![];
    if phased {
        features.insert("phased-read-define-read");
        let (outer, nearer): (Vec<_>, Vec<_>) = definer_stanzas.into_iter().zip(definer_is_outer.iter()).partition(|(_, o)| **o);
        stanzas.extend(outer.into_iter().map(|(s, _)| s));
        stanzas.push(base);
        if with_links {
            stanzas.push(link);
        }
        stanzas.extend(via_link_stanzas);
        let second: Vec<Item> = if reader_stanzas.len() > first_batch { reader_stanzas.split_off(first_batch) } else { vec![] };
        stanzas.extend(reader_stanzas);
        stanzas.extend(nearer.into_iter().map(|(s, _)| s));
        stanzas.extend(setter_stanzas);
        stanzas.extend(second);
        items.extend(stanzas);
        return (GProg { items }, features);
    }
    stanzas.extend(definer_stanzas);
    stanzas.push(base);
    if with_links {
        stanzas.push(link);
    }
    stanzas.extend(via_link_stanzas);
    stanzas.extend(reader_stanzas);
    if strict_only && t.chance(1, 2) {
        // a few swaps
        for _ in 0..1 + t.choose(3) {
            let (a, b) = (t.choose(stanzas.len()), t.choose(stanzas.len()));
            stanzas.swap(a, b);
        }
        features.insert("shuffled-stanzas");
    }
    items.extend(stanzas);
    (GProg { items }, features)
}

pub fn case(tape: &[u32]) -> CaseOutcome {
    let (aux, main) = split_tape(tape);
    let mut a = Tape::new(&aux);
    let mut t = Tape::new(&main);
    let strict_only = a.chance(1, 4);
    let mut cfg = if strict_only { GenCfg::full() } else { GenCfg::fragment() };
    cfg.scoped_heavy = true;
    cfg.risk = 6;
    cfg.fault = a.chance(1, 8);
    cfg.scans = a.chance(1, 3);
    cfg.prints = false;
    let use_scenario = a.chance(2, 3);
    let n = 1 + a.choose(2);
    let sources: Vec<String> = (0..n).map(|_| if a.chance(1, 3) { SHAPES[a.choose(SHAPES.len())].to_string() } else { pysrc::gen_source(&mut a) }).collect();
    let mut program = if use_scenario {
        let (prog, features) = scenario(&mut t, strict_only, 30);
        let printed = crate::dsl::print_canonical(&prog);
        let mut gen = crate::gen::Generated { prog, globals: Default::default(), features: Default::default(), fault: None, fault_id: None, fault_pair: None };
        gen.features = features;
        Program { gen, printed }
    } else {
        make_program(&mut t, &cfg)
    };
    if use_scenario {
        program.gen.features.insert("scenario");
    }
    let dsl = &program.printed.text;
    let file = match load_valid("C04", dsl) {
        Ok(f) => f,
        Err(o) => return o,
    };
    let mut report = CaseReport::default();
    report.evaluations = 0;
    let mut labels = vec![];
    let mut nontrivial = false;
    for source in &sources {
        let tree = pysrc::parse(source);
        let index = TreeIndex::new(&tree);
        let model = model_run(&program.gen.prog, &tree, &index, source, &program.gen.globals, Default::default());
        let d = |extra| detail(dsl, source, &program.gen.globals, extra);
        if let Outcome::Inconclusive(why) = &model.outcome {
            report.counters.push((format!("inconclusive:{}", why.split(':').next().unwrap_or("")), 1));
            continue;
        }
        for lazy in [false, true] {
            if lazy && strict_only {
                continue;
            }
            let mode = if lazy { "lazy" } else { "strict" };
            let (actual, _) = run_capped(&file, &tree, &index, source, &program.gen.globals, &ExecOpts { lazy, debug: None }, model.poll_cap());
            report.evaluations += 1;
            match (&model.outcome, &actual) {
                (_, LibRun::Panic(p)) => return CaseOutcome::Fail(Failure::new(format!("C04:{}:{}", mode, p.signature()), p.message.clone(), d(json!({})))),
                (Outcome::Err(_), LibRun::PollBound(_)) => report.counters.push(("inconclusive:poll-bound-next-to-failing-reference-run".into(), 1)),
                (_, LibRun::PollBound(_)) | (_, LibRun::BadGraph(_)) => return CaseOutcome::Fail(Failure::new(format!("C04:{}:bad-run", mode), "poll bound or inconsistent graph".to_string(), d(json!({})))),
                (Outcome::Ok, LibRun::Ok(g)) => match compare_graphs(&model.graph, g, 0) {
                    Cmp::Same => labels.push(format!("{}:ok", mode)),
                    Cmp::Inconclusive => report.counters.push(("inconclusive:isomorphism-budget".into(), 1)),
                    Cmp::Different(why) => {
                        return CaseOutcome::Fail(Failure::new(
                            format!("C04:{}:values-differ", mode),
                            format!("{} execution copied other values out of scoped variables than node identity / nearest-ancestor inheritance prescribe: {}", mode, why),
                            d(json!({"expected_graph": model.graph.to_json(), "actual_graph": g.to_json()})),
                        ))
                    }
                },
                (Outcome::Ok, LibRun::Err(e)) => {
                    return CaseOutcome::Fail(Failure::new(format!("C04:{}:unexpected-error:{}", mode, variant_name(root_cause(e))), format!("{} execution failed: {}", mode, e), d(json!({"expected_graph": model.graph.to_json()}))));
                }
                (Outcome::Err(re), LibRun::Ok(g)) => {
                    // strict must fail exactly when the model does; lazy only for causes that do
                    // not depend on evaluation order (a variable may be defined by a later stanza)
                    if !lazy || failure_binds_lazy(&program.gen.prog, re) {
                        return CaseOutcome::Fail(Failure::new(
                            format!("C04:{}:missing-error:{:?}", mode, re.kind),
                            format!("the run must fail ({:?}: {}), {} execution returned a graph ({})", re.kind, re.msg, mode, g.summary()),
                            d(json!({"expected_error": rerr_json(re)})),
                        ));
                    }
                    labels.push(format!("lazy-ok-where-strict-fails:{:?}", re.kind));
                }
                (Outcome::Err(re), LibRun::Err(_)) => labels.push(format!("{}:err:{:?}", mode, re.kind)),
                (Outcome::Inconclusive(_), _) => {}
            }
        }
        let tr = &model.trace;
        if tr.scoped_cross_reads > 0 {
            labels.push("cross-capture-read".into());
        }
        if tr.scoped_inherited_reads > 0 {
            labels.push("inherited-read".into());
        }
        if tr.scoped_inherited_multi > 0 {
            labels.push("inherited-read-with->=2-defining-ancestors".into());
        }
        if tr.same_range_touched > 0 {
            labels.push("same-range-parent-child".into());
        }
        let many = tr.per_stanza.iter().any(|m| *m >= 2);
        if (tr.scoped_cross_reads > 0 && many) || tr.scoped_inherited_multi > 0 || (tr.same_range_touched > 0 && tr.scoped_reads > 0) {
            nontrivial = true;
        }
    }
    for f in ["nested-scope-read", "scoped-read-through-local", "scoped-link", "inherited-name-defined-on-several-kinds", "scoped-set", "scenario", "read-through-stored-link", "read-through-list-element", "read-through-optional-capture", "shuffled-stanzas", "list-capture-used-as-a-scope", "read-only-in-a-print"] {
        if program.gen.features.contains(f) {
            labels.push(format!("feat:{}", f));
        }
    }
    if strict_only {
        labels.push("strict-only(mutable scoped variables allowed)".into());
    }
    labels.sort();
    labels.dedup();
    report.fingerprint = fingerprint(&(dsl, &sources));
    report.nontrivial = nontrivial;
    report.labels = labels;
    report.sample = Some(json!({"dsl": dsl, "sources": sources}));
    CaseOutcome::Pass(report)
}

pub fn spec(tier: &str) -> Spec {
    let mut s = Spec::new("C04", tier, 5_000, 60_000, 1200);
    s.rule = "scoped-variable-heavy programs: definitions on every node of a kind read later through other captures, through loop variables over list captures, through syntax nodes stored in other scoped variables (`@a.ref.v`), `inherit`ed names defined on the module and again on nearer kinds of nodes, conditional / repeated definitions, values that encode definition site + node kind + position; 1-2 trees from the generators and from shapes with deep nesting, same-range parent/child chains and many nodes of one kind. Three quarters lie in the order-insensitive fragment and run in both modes, one quarter allow mutable scoped variables and run strict only. Oracle: the reference interpreter with exact (pre-order) node identity: Ok/Err and every attribute value copied out of a scoped variable. Non-trivial: a read through a different expression than the definition with >=2 matches of a stanza, or an inherited read with >=2 defining ancestors, or a touched node that shares its byte range with its parent. Distinct = fingerprint of (DSL text, sources).".into();
    s.assumptions = vec!["node identity is the pre-order number from one TreeCursor walk (harness/src/tree.rs)".into()];
    s
}

pub fn run_check(tier: &str) -> i32 {
    let started = std::time::Instant::now();
    let spec = spec(tier);
    let result = run_tapes(&spec, case);
    finish(&spec, result, started)
}
