//! C15 — debug attributes are correct and do not otherwise change the outcome
//! (differential between configurations + expected values from the reference interpreter).

use super::common::*;
use crate::cval::{isomorphic, CVal, Iso, MGraph};
use crate::dsl::*;
use crate::engine::*;
use crate::gen::GenCfg;
use crate::interp::Outcome;
use crate::lib_api::*;
use crate::pysrc;
use crate::tree::TreeIndex;
use serde_json::json;
use std::collections::BTreeSet;

const LOC: &str = "zz-loc";
const VAR: &str = "zz-var";
const MATCH: &str = "zz-match";

fn loc_text(l: Loc) -> String {
    format!("line {} column {}", l.row + 1, l.col + 1)
}

fn strip(g: &MGraph, edges_only: bool) -> MGraph {
    let mut out = g.clone();
    for n in out.nodes.iter_mut() {
        if !edges_only {
            n.attrs.remove(LOC);
            n.attrs.remove(VAR);
            n.attrs.remove(MATCH);
        }
        for a in n.edges.values_mut() {
            a.remove(LOC);
            if !edges_only {
                a.remove(VAR);
                a.remove(MATCH);
            }
        }
    }
    out
}

pub fn case(tape: &[u32]) -> CaseOutcome {
    let (aux, main) = split_tape(tape);
    let mut a = Tape::new(&aux);
    let mut t = Tape::new(&main);
    let mut cfg = GenCfg::fragment();
    cfg.collisions = a.chance(1, 2);
    cfg.scoped_heavy = a.chance(1, 2);
    cfg.prints = false;
    cfg.fault = a.chance(1, 10);
    cfg.max_stanzas = 5;
    let source = pysrc::gen_source(&mut a);
    let mut program = make_program(&mut t, &cfg);
    // half of the programs in a free layout: blanks, line breaks and comments between tokens
    let free_layout = a.chance(1, 2);
    if free_layout {
        program.printed = crate::dsl::print_random(&program.gen.prog, &mut a);
    }
    let dsl = &program.printed.text;
    let file = match load_valid("C15", dsl) {
        Ok(f) => f,
        Err(o) => return o,
    };
    let tree = pysrc::parse(&source);
    let index = TreeIndex::new(&tree);
    let model = model_run(&program.gen.prog, &tree, &index, &source, &program.gen.globals, Default::default());
    let locs = &program.printed.locs;
    let mut report = CaseReport::default();
    report.evaluations = 0;
    let mut labels = vec![];
    if free_layout {
        labels.push("free-layout".to_string());
    }
    let debug = Some((LOC.to_string(), VAR.to_string(), MATCH.to_string()));
    for lazy in [false, true] {
        let mode = if lazy { "lazy" } else { "strict" };
        let d = |extra| detail(dsl, &source, &program.gen.globals, extra);
        let (plain, _) = run_capped(&file, &tree, &index, &source, &program.gen.globals, &ExecOpts { lazy, debug: None }, model.poll_cap());
        let (dbg, _) = run_capped(&file, &tree, &index, &source, &program.gen.globals, &ExecOpts { lazy, debug: debug.clone() }, model.poll_cap());
        report.evaluations += 2;
        for r in [&plain, &dbg] {
            if let LibRun::Panic(p) = r {
                return CaseOutcome::Fail(Failure::new(format!("C15:{}:{}", mode, p.signature()), p.message.clone(), d(json!({}))));
            }
        }
        let (gp, gd) = match (&plain, &dbg) {
            (LibRun::Ok(a), LibRun::Ok(b)) => (a, b),
            (LibRun::Err(_), LibRun::Err(_)) => {
                labels.push(format!("{}:both-fail", mode));
                continue;
            }
            (LibRun::Ok(_), LibRun::Err(e)) => {
                return CaseOutcome::Fail(Failure::new(
                    format!("C15:{}:fails-with-debug-attributes:{}", mode, variant_name(root_cause(e))),
                    format!("{} execution succeeds without debug attributes and fails with them: {}", mode, e),
                    d(json!({})),
                ));
            }
            (LibRun::Err(e), LibRun::Ok(_)) => {
                return CaseOutcome::Fail(Failure::new(format!("C15:{}:succeeds-with-debug-attributes", mode), format!("{} execution fails without debug attributes ({}) and succeeds with them", mode, e), d(json!({}))));
            }
            _ => return CaseOutcome::Fail(Failure::new(format!("C15:{}:bad-run", mode), "poll bound or inconsistent graph".to_string(), d(json!({})))),
        };
        // neutrality: same mode, same numbering
        let stripped = strip(gd, false);
        if &stripped != gp {
            let i = (0..gp.nodes.len().max(stripped.nodes.len())).find(|i| gp.nodes.get(*i) != stripped.nodes.get(*i));
            return CaseOutcome::Fail(Failure::new(
                format!("C15:{}:not-neutral", mode),
                format!("removing the three debug attributes from the {} graph does not give the graph produced without them (first difference at node {:?})", mode, i),
                d(json!({"plain_graph": gp.to_json(), "debug_graph": gd.to_json()})),
            ));
        }
        // correctness of the values, against the reference interpreter's record of origins
        if !matches!(model.outcome, Outcome::Ok) {
            continue;
        }
        let mut expected = model.graph.clone();
        for (n, origin) in &model.trace.node_origin {
            if let (Some(var_id), Some(text)) = (origin.var_id, &origin.var_text) {
                let l = match locs.get(&var_id) {
                    Some(l) => *l,
                    None => continue,
                };
                expected.nodes[*n].attrs.insert(LOC.into(), CVal::Str(loc_text(l)));
                expected.nodes[*n].attrs.insert(VAR.into(), CVal::Str(text.clone()));
                expected.nodes[*n].attrs.insert(MATCH.into(), CVal::Syn(origin.match_root));
            }
        }
        let actual_nodes_only = strip(gd, true);
        let map: Vec<usize> = if expected == actual_nodes_only {
            (0..expected.nodes.len()).collect()
        } else {
            match isomorphic(&expected, &actual_nodes_only, 0) {
                Iso::Yes(m) => m,
                Iso::Inconclusive => {
                    report.counters.push(("inconclusive:isomorphism-budget".into(), 1));
                    continue;
                }
                Iso::No(why) => {
                    return CaseOutcome::Fail(Failure::new(
                        format!("C15:{}:node-debug-attributes-wrong", mode),
                        format!("nodes created by `node` statements do not carry the variable text, `line r column c` of the variable and the stanza's matched node: {}", why),
                        d(json!({"expected_graph": expected.to_json(), "actual_graph": actual_nodes_only.to_json()})),
                    ));
                }
            }
        };
        let identity = map.iter().enumerate().all(|(i, j)| i == *j);
        // edges: the location of one of the statements that created the edge
        let all_edge_locs: BTreeSet<String> = model.trace.edge_stmts.values().flatten().filter_map(|id| locs.get(id)).map(|l| loc_text(*l)).collect();
        for ((a, b), stmts) in &model.trace.edge_stmts {
            let allowed: BTreeSet<String> = stmts.iter().filter_map(|id| locs.get(id)).map(|l| loc_text(*l)).collect();
            let actual = gd.nodes[map[*a]].edges.get(&map[*b]).and_then(|attrs| attrs.get(LOC));
            match actual {
                Some(CVal::Str(s)) if allowed.contains(s) => {}
                Some(CVal::Str(s)) if all_edge_locs.contains(s) && !(identity && !lazy) => {
                    // under a non-identity renumbering automorphic nodes may be swapped
                    report.counters.push(("inconclusive:edge-location-under-automorphism".into(), 1));
                }
                other => {
                    return CaseOutcome::Fail(Failure::new(
                        format!("C15:{}:edge-location-wrong", mode),
                        format!("edge {} -> {} carries location {:?}; it was created by edge statement(s) at {:?}", map[*a], map[*b], other, allowed),
                        d(json!({"debug_graph": gd.to_json()})),
                    ));
                }
            }
        }
        labels.push(format!("{}:checked", mode));
    }
    let node_stmt_stanzas: BTreeSet<usize> = model.trace.node_origin.values().filter(|o| o.stmt.is_some()).map(|o| o.stanza).collect();
    let node_stmts = model.trace.node_origin.values().filter(|o| o.stmt.is_some()).count();
    let multi_edge = model.trace.edge_stmts.values().any(|v| v.iter().collect::<BTreeSet<_>>().len() >= 2);
    if multi_edge {
        labels.push("edge-from->=2-distinct-statements".into());
    }
    if node_stmt_stanzas.len() >= 2 {
        labels.push("node-statements-in->=2-stanzas".into());
    }
    labels.sort();
    labels.dedup();
    report.fingerprint = fingerprint(&(dsl, &source));
    report.nontrivial = matches!(model.outcome, Outcome::Ok) && (multi_edge || (node_stmts >= 2 && node_stmt_stanzas.len() >= 2));
    report.labels = labels;
    report.sample = Some(json!({"dsl": dsl, "source": source}));
    CaseOutcome::Pass(report)
}

pub fn spec(tier: &str) -> Spec {
    let mut s = Spec::new("C15", tier, 3_000, 40_000, 1200);
    s.rule = "accepted generated programs (half of them collision-heavy, so one edge is created by several statements), one tree each, executed in {strict, lazy} x {no debug attributes, debug attributes under three fresh names}. Oracle: same Ok/Err with and without; removing the three attributes gives exactly the plain graph (same numbering); every node created by a `node` statement carries the variable's text, `line r+1 column c+1` of that variable as the harness's printer placed it, and the syntax node the stanza matched (from the reference interpreter's record of origins, compared as whole graphs up to renumbering); every edge carries the location of one of the `edge` statements that the reference interpreter saw create it. evaluations = executions. Non-trivial: a successful run with an edge created by >=2 distinct statements, or >=2 `node` statements in >=2 stanzas. Distinct = fingerprint of (DSL text, source).".into();
    s.assumptions = vec![
        "when the debug graph is only equal to the expected one up to renumbering, an edge location that belongs to another executed edge statement is counted inconclusive (automorphic nodes may be swapped)".into(),
    ];
    s
}

pub fn run_check(tier: &str) -> i32 {
    let started = std::time::Instant::now();
    let spec = spec(tier);
    let result = run_tapes(&spec, case);
    finish(&spec, result, started)
}
