//! C05 — no input makes loading, execution or error rendering panic or hang
//! (total-function fuzzing: mutated texts, accepted but ill-typed programs, hostile globals).

use super::common::*;
use crate::cval::CVal;
use crate::dsl::*;
use crate::engine::*;
use crate::gen::GenCfg;
use crate::lib_api::*;
use crate::pysrc;
use crate::tree::TreeIndex;
use serde_json::json;
use std::collections::BTreeMap;

/// Texts from tests/it and the reference, used as mutation seeds next to generated programs.
pub const TSG_CORPUS: &[&str] = &[
    "(module) @m { node @m.n }\n",
    "global filepath\n\n(module) @mod\n{\n  var new_node = #null\n  var current_node = (node)\n\n  scan filepath {\n    \"([^/]+)/\"\n    {\n      set new_node = (node)\n      attr (new_node) name = $1\n      edge current_node -> new_node\n      set current_node = new_node\n    }\n\n    \"__init__\\\\.py$\"\n    {\n      let @mod.root = current_node\n    }\n\n    \"([^/]+)\\\\.py$\"\n    {\n      set new_node = (node)\n      attr (new_node) name = $1\n      edge current_node -> new_node\n      let @mod.root = new_node\n    }\n  }\n}\n",
    "attribute node_props = node => node_text = (source-text node), node_index = (named-child-index node)\n\n(argument_list (_)@expr) {\n  node @expr.n\n  attr (@expr.n) node_props = @expr\n}\n",
    "(module (_)* @stmts)\n{\n  for stmt in @stmts {\n    print stmt\n  }\n}\n",
    "(import_statement name: (_) @name)\n{\n  node @name.source\n  node @name.sink\n  attr (@name.sink) kind = \"module\"\n  attr (@name.source -> @name.sink) precedence = 10\n  edge @name.source -> @name.sink\n}\n",
    "inherit .scope\n(module) @m { node @m.scope }\n(identifier) @id { node n  edge n -> @id.scope }\n",
    "(if_statement condition: (_)? @c alternative: (_)? @alt) @i\n{\n  if some @c, none @alt {\n    print \"a\"\n  } elif some @alt {\n    print \"b\"\n  } else {\n    print [ (node-type x) for x in [@i] ], { 1, 2, }\n  }\n}\n",
    "global g? = \"d\"\nglobal xs*\n(pass_statement) @p { let x = [ y for y in xs ] print g, x, @p }\n",
];

const STRAY: &[&str] = &[
    "{", "}", "(", ")", "[", "]", "\"", "\\", ";", ",", ".", "@", "#", "$", "->", "=>", "=", "?", "*", "+", "@@", "..", "#nul", "#truee", "$$", "$0x", "4294967295", "4294967296", "99999999999999999999999", "$99999999999999999999999", "$18446744073709551616", "é", "日", "\u{0}", "\t", "\n", " ", "let", "var", "set", "node", "edge", "attr", "print", "scan", "if", "elif", "else", "for", "in", "some", "none", "global", "attribute", "inherit", "@__tsg__full_match", "(node)", "(_)*", "(ERROR)", "(MISSING)", "; c\n", "\"unterminated", "(#eq? @x \"",
];

fn tokenize(text: &str) -> Vec<String> {
    let mut out = vec![];
    let mut cur = String::new();
    let mut kind = 0;
    for c in text.chars() {
        let k = if c.is_alphanumeric() || c == '_' || c == '-' {
            1
        } else if c.is_whitespace() {
            2
        } else {
            3
        };
        if k == 3 || k != kind {
            if !cur.is_empty() {
                out.push(std::mem::take(&mut cur));
            }
        }
        cur.push(c);
        kind = k;
        if k == 3 {
            out.push(std::mem::take(&mut cur));
            kind = 0;
        }
    }
    if !cur.is_empty() {
        out.push(cur);
    }
    out
}

fn mutate(t: &mut Tape, text: &str) -> String {
    let mut toks = tokenize(text);
    let n = 1 + t.weighted(&[5, 4, 3, 2, 1, 1]);
    for _ in 0..n {
        if toks.is_empty() {
            toks.push(STRAY[t.choose(STRAY.len())].to_string());
            continue;
        }
        let pos = t.choose(toks.len());
        match t.choose(8) {
            0 => {
                toks.remove(pos);
            }
            1 => {
                let x = toks[pos].clone();
                toks.insert(pos, x);
            }
            2 => {
                let o = t.choose(toks.len());
                toks.swap(pos, o);
            }
            3 | 4 => toks.insert(pos, STRAY[t.choose(STRAY.len())].to_string()),
            5 => toks[pos] = STRAY[t.choose(STRAY.len())].to_string(),
            6 => {
                // splice: move a run of tokens elsewhere
                let len = 1 + t.choose(6.min(toks.len() - pos));
                let run: Vec<String> = toks.drain(pos..pos + len).collect();
                let at = t.choose(toks.len() + 1);
                for (k, r) in run.into_iter().enumerate() {
                    toks.insert(at + k, r);
                }
            }
            _ => {
                // byte-level: truncate the text at this token
                toks.truncate(pos);
            }
        }
    }
    let mut s = toks.concat();
    if t.chance(1, 12) {
        // cut inside a multi-byte character boundary-safe: drop the last char
        s.pop();
    }
    s
}

pub fn bracket_depth(text: &str) -> usize {
    let (mut d, mut m) = (0usize, 0usize);
    for c in text.chars() {
        match c {
            '(' | '[' | '{' => {
                d += 1;
                m = m.max(d);
            }
            ')' | ']' | '}' => d = d.saturating_sub(1),
            _ => {}
        }
    }
    m
}

/// Load `text`; if accepted, execute it in both modes; render every error.  Err = a violation.
/// Known finding D21: tree-sitter (C library, 0.24.7) cannot cope with a `+` repetition applied to
/// something that can match nothing (`(x)*+`, `(x)?+`, `((x)* @c)+`, `(x)* @c +`): the query
/// cursor corrupts memory, or `ts_query_new` itself never returns.
/// True when `text` has a `+` (outside strings and comments) directly after `*` / `?`, or after a
/// bracketed group that contains a `*` or `?` anywhere inside - an over-approximation; such inputs
/// are not executed in-process.
pub fn plus_over_nullable(text: &str) -> bool {
    let chars: Vec<char> = text.chars().collect();
    // blank out strings and comments
    let mut plain = chars.clone();
    let (mut i, n) = (0, chars.len());
    while i < n {
        match chars[i] {
            '"' => {
                plain[i] = ' ';
                i += 1;
                while i < n && chars[i] != '"' {
                    if chars[i] == '\\' && i + 1 < n {
                        plain[i] = ' ';
                        i += 1;
                    }
                    plain[i] = ' ';
                    i += 1;
                }
                if i < n {
                    plain[i] = ' ';
                }
            }
            ';' => {
                while i < n && chars[i] != '\n' {
                    plain[i] = ' ';
                    i += 1;
                }
                continue;
            }
            _ => {}
        }
        i += 1;
    }
    for (k, c) in plain.iter().enumerate() {
        if *c != '+' {
            continue;
        }
        // step back over blanks and over captures (`(x)* @c +` repeats the captured `(x)*`)
        let mut j = k;
        loop {
            while j > 0 && plain[j - 1].is_whitespace() {
                j -= 1;
            }
            let mut m = j;
            while m > 0 && (plain[m - 1].is_alphanumeric() || plain[m - 1] == '_' || plain[m - 1] == '-' || plain[m - 1] == '.') {
                m -= 1;
            }
            if m > 0 && m < j && plain[m - 1] == '@' {
                j = m - 1;
                continue;
            }
            break;
        }
        if j == 0 {
            continue;
        }
        match plain[j - 1] {
            '*' | '?' => return true,
            close @ (')' | ']') => {
                let open = if close == ')' { '(' } else { '[' };
                let mut depth = 0usize;
                let mut m = j - 1;
                loop {
                    if plain[m] == close {
                        depth += 1;
                    } else if plain[m] == open {
                        depth -= 1;
                        if depth == 0 {
                            break;
                        }
                    }
                    if m == 0 {
                        break;
                    }
                    m -= 1;
                }
                if plain[m..j].iter().any(|x| *x == '*' || *x == '?') {
                    return true;
                }
            }
            _ => {}
        }
    }
    false
}

/// The pinned input of D21, for the child process that demonstrates it.
pub const D21_TEXT: &str = "(module ((_)* @stmts)+)\n{\n  print @stmts\n}\n";

pub fn exercise(text: &str, source: &str, globals: &BTreeMap<String, CVal>) -> Result<(&'static str, Vec<String>), Failure> {
    if plus_over_nullable(text) {
        return Ok(("excluded", vec!["excluded:plus-over-nullable-repetition(known finding D21)".to_string()]));
    }
    exercise_unguarded(text, source, globals)
}

pub fn exercise_unguarded(text: &str, source: &str, globals: &BTreeMap<String, CVal>) -> Result<(&'static str, Vec<String>), Failure> {
    let d = |extra: serde_json::Value| json!({"dsl": text, "source": source, "globals": globals_json(globals), "more": extra});
    let loaded = match load(text) {
        Err(p) => return Err(Failure::new(format!("C05:load:{}", p.signature()), format!("File::from_str panicked: {}", p.message), d(json!({})))),
        Ok(l) => l,
    };
    let mut labels = vec![];
    let file = match loaded {
        Err(e) => {
            match render_parse_error(&e, text) {
                Err(p) => return Err(Failure::new(format!("C05:render-parse-error:{}", p.signature()), format!("rendering the load error panicked: {}", p.message), d(json!({"error_debug": format!("{:?}", e)})))),
                Ok((plain, pretty)) => {
                    if plain.is_empty() || pretty.is_empty() {
                        return Err(Failure::new("C05:empty-diagnostic", "a load error renders as empty text".to_string(), d(json!({}))));
                    }
                }
            }
            let variant = format!("{:?}", e);
            labels.push(format!("load-error:{}", variant.split(|c| c == '(' || c == ' ').next().unwrap_or("")));
            return Ok(("rejected", labels));
        }
        Ok(f) => f,
    };
    let tree = pysrc::parse(source);
    let index = TreeIndex::new(&tree);
    for lazy in [false, true] {
        let mode = if lazy { "lazy" } else { "strict" };
        let (r, _) = run(&file, &tree, &index, source, globals, &ExecOpts { lazy, debug: None });
        match r {
            LibRun::Panic(p) => return Err(Failure::new(format!("C05:{}:{}", mode, p.signature()), format!("{} execution panicked: {}", mode, p.message), d(json!({})))),
            LibRun::PollBound(_) => {
                // slow or endless?  decide with a bound 4 times higher (a loop that stopped advancing may also grow memory), one such run at a time
                static CONFIRM: std::sync::Mutex<()> = std::sync::Mutex::new(());
                let _guard = CONFIRM.lock().unwrap_or_else(|e| e.into_inner());
                let (again, polls) = run_capped(&file, &tree, &index, source, globals, &ExecOpts { lazy, debug: None }, 8_000_000);
                match again {
                    LibRun::PollBound(n) => return Err(Failure::new(format!("C05:{}:poll-bound", mode), format!("{} execution polled the cancellation flag {} times without finishing (no longer advancing)", mode, n), d(json!({})))),
                    LibRun::Panic(p) => return Err(Failure::new(format!("C05:{}:{}", mode, p.signature()), format!("{} execution panicked: {}", mode, p.message), d(json!({})))),
                    _ => labels.push(format!("{}:slow-but-finite({}-polls)", mode, if polls > 4_000_000 { ">4M" } else { "2M-4M" })),
                }
            }
            LibRun::BadGraph(w) => return Err(Failure::new(format!("C05:{}:bad-graph", mode), w, d(json!({})))),
            LibRun::Ok(_) => labels.push(format!("{}:ok", mode)),
            LibRun::Err(e) => {
                if let Err(p) = render_exec_error(&e, source, text) {
                    return Err(Failure::new(format!("C05:render-exec-error:{}", p.signature()), format!("rendering the {} execution error panicked: {}", mode, p.message), d(json!({"error_debug": format!("{:?}", e)}))));
                }
                labels.push(format!("{}:err:{}", mode, variant_name(root_cause(&e))));
            }
        }
    }
    Ok(("executed", labels))
}

fn hostile_globals(t: &mut Tape, base: &BTreeMap<String, CVal>, names: &[String]) -> BTreeMap<String, CVal> {
    let mut g = base.clone();
    for n in names {
        match t.choose(6) {
            0 => {
                g.remove(n);
            }
            1 => {
                g.insert(n.clone(), CVal::Int(7));
            }
            2 => {
                g.insert(n.clone(), CVal::Null);
            }
            3 => {
                g.insert(n.clone(), CVal::List(vec![CVal::Str("é".into()), CVal::Null]));
            }
            4 => {
                g.insert(n.clone(), CVal::Set([CVal::Bool(true)].into_iter().collect()));
            }
            _ => {}
        }
    }
    g
}

const TREES: &[&str] = &["pass\n", "x = (\n", "def f(:\n  é = 'ü\n", "", "a.b(c)\nprint d, 名\n", "class A:\n  def m(self): return self.x\n)\n"];

pub const RECURSIVE_SHORTHANDS: &[&str] = &[
    "attribute sh = x => sh = x\n(module) @m { node @m.n attr (@m.n) sh = 1 }\n",
    "attribute a = x => b = x\nattribute b = y => c = y, a = y\n(module) @m { node @m.n attr (@m.n) a = @m }\n",
];


/// Programs whose scoped variables refer to each other, possibly in a cycle (directly, through
/// lists, calls or inherited lookups): lazy evaluation has to report the cycle, not follow it.
pub fn reference_cycles(t: &mut Tape) -> String {
    let names = ["a", "b", "c"];
    let mut text = String::new();
    for n in names {
        if t.chance(1, 3) {
            text.push_str(&format!("inherit .{}\n", n));
        }
    }
    let stanzas = [("(module) @m", "m"), ("(identifier) @x", "x"), ("(expression_statement (_) @e) @s", "e"), ("(call function: (_) @f) @c", "f")];
    let nst = 1 + t.choose(3);
    for si in 0..nst {
        let (pattern, cap) = stanzas[if si == 0 { 0 } else { t.choose(stanzas.len()) }];
        text.push_str(pattern);
        text.push_str(" {\n");
        let k = 1 + t.choose(3);
        for i in 0..k {
            let name = names[i];
            let target = names[t.choose(3)];
            let scope = if pattern.contains("@s") && t.chance(1, 2) { "s" } else if pattern.contains("@c") && t.chance(1, 2) { "c" } else { cap };
            let rhs = match t.weighted(&[6, 2, 2, 1, 1]) {
                0 => format!("@{}.{}", scope, target),
                1 => format!("[@{}.{}]", scope, target),
                2 => format!("(is-null @{}.{})", scope, target),
                3 => format!("[ y for y in [@{}.{}] ]", scope, target),
                _ => "1".to_string(),
            };
            text.push_str(&format!("  let @{}.{} = {}\n", cap, name, rhs));
        }
        if t.chance(3, 4) {
            let used = names[t.choose(3)];
            match t.choose(3) {
                0 => text.push_str(&format!("  node @{}.n{}\n  attr (@{}.n{}) use = @{}.{}\n", cap, si, cap, si, cap, used)),
                1 => text.push_str(&format!("  print @{}.{}\n", cap, used)),
                _ => text.push_str(&format!("  node @{}.n{}\n  edge @{}.n{} -> @{}.{}\n", cap, si, cap, si, cap, used)),
            }
        }
        text.push_str("}\n");
    }
    text
}

pub fn case(tape: &[u32]) -> CaseOutcome {
    if tape.len() == 2 && tape[0] == 0xFFFF_FF21 {
        return d21_probe();
    }
    if tape.len() >= 2 && tape[0] == 0xFFFF_FF05 {
        // a libFuzzer artifact stored as bytes
        let bytes: Vec<u8> = tape[2..].iter().map(|w| *w as u8).collect();
        return artifact_case(&bytes);
    }
    let (aux, main) = split_tape(tape);
    let mut t = Tape::new(&aux);
    let mut gt = Tape::new(&main);
    let layer = t.weighted(&[12, 8, 2, 3]);
    let source = if t.chance(1, 2) { TREES[t.choose(TREES.len())].to_string() } else { pysrc::gen_source(&mut t) };
    let mut labels = vec![];
    let (text, globals) = match layer {
        0 => {
            // mutated texts
            let (base, globals) = if t.chance(1, 3) {
                (TSG_CORPUS[t.choose(TSG_CORPUS.len())].to_string(), BTreeMap::new())
            } else {
                let mut cfg = GenCfg::full();
                cfg.max_stanzas = 3;
                cfg.d7 = true;
                let g = crate::gen::generate(&mut gt, &cfg);
                let printed = if t.chance(1, 2) { print_random(&g.prog, &mut t) } else { print_canonical(&g.prog) };
                (printed.text, g.globals)
            };
            labels.push("mutated-text".to_string());
            (mutate(&mut t, &base), globals)
        }
        1 => {
            // accepted programs that are ill-typed or otherwise fail at run time
            let mut cfg = GenCfg::full();
            cfg.risk = 25;
            cfg.fault = t.chance(1, 2);
            cfg.d7 = true;
            cfg.gnode_text = true;
            let g = crate::gen::generate(&mut gt, &cfg);
            let names: Vec<String> = g.prog.globals().iter().map(|x| x.0.to_string()).collect();
            let globals = if t.chance(1, 3) { hostile_globals(&mut t, &g.globals, &names) } else { g.globals.clone() };
            labels.push("accepted-risky-program".to_string());
            (print_canonical(&g.prog).text, globals)
        }
        3 => {
            labels.push("reference-cycles".to_string());
            (reference_cycles(&mut gt), BTreeMap::new())
        }
        _ => {
            // hand-written hazards: recursive shorthands, captures in shorthands, huge numerals
            let pool: Vec<String> = RECURSIVE_SHORTHANDS
                .iter()
                .map(|s| s.to_string())
                .chain(
                    [
                        "attribute sh = x => a = @m\n(module) @m { node @m.n attr (@m.n) sh = 1 }\n",
                        "(module) @_m { let x = 4294967296 }\n",
                        "(module) @_m { scan \"ab\" { \"a\" { print $3 } } }\n",
                        "(module) @_m { print $99999999999999999999999 }\n",
                        "(module) @m { node @m.n attr (@m.n) v = (plus 4294967295 1) }\n",
                        "(module) @a @b @c { print @a, @b, @c }\n",
                        "(identifier)* @xs { print @xs }\n",
                        "(module) @_m { scan \"aXb\" { \"\\\\b\" { print $0 } } }\n",
                        "(module) @_m { scan \"ab\" { \"a\" { print $0 } \"\\\\b\" { print $0 } } }\n",
                        "(module) @_m { scan \"ab\" { \"a|\\\\b\" { print $0 } } }\n",
                        "(call function: (#identifier) @f) { print @f }\n",
                        "(module (#pass_statement) @p) @m { node @m.n attr (@m.n) p = @p }\n",
                        "(module) @_m { scan \"x=2\" { \"\\\\b[a-z]*\" { print $0 } \"[0-9]+\" { print $0 } } }\n",
                        "(module) @_m { scan \"ab cd\" { \"[a-z]+\" { scan $0 { \"a\" { } \"\\\\B\" { print $0 } } } \"^\" { } } }\n",
                    ]
                    .iter()
                    .map(|s| s.to_string()),
                )
                .collect();
            labels.push("hazard".to_string());
            (pool[t.choose(pool.len())].clone(), BTreeMap::new())
        }
    };
    if bracket_depth(&text) > 64 {
        return CaseOutcome::Discard("bracket nesting deeper than 64");
    }
    if std::env::var("VERIF_SHOW").is_ok() {
        // debugging aid for crash candidates: show the input before it is exercised
        use std::io::Write;
        let mut so = std::io::stdout();
        let _ = writeln!(so, "--- dsl ---\n{}\n--- source ---\n{}\n--- globals ---\n{:?}", text, source, globals);
        let _ = so.flush();
    }
    match exercise(&text, &source, &globals) {
        Err(f) => CaseOutcome::Fail(f),
        Ok((stage, more)) => {
            labels.extend(more);
            labels.push(format!("stage:{}", stage));
            CaseOutcome::Pass(CaseReport {
                fingerprint: fingerprint(&(&text, &source)),
                nontrivial: stage == "executed" || labels.iter().any(|l| l.starts_with("load-error:Check")),
                labels,
                counters: vec![],
                sample: Some(json!({"dsl": text, "source": source})),
                evaluations: if stage == "executed" { 3 } else { 1 },
            })
        }
    }
}

pub fn spec(tier: &str) -> Spec {
    let mut s = Spec::new("C05", tier, 12_000, 150_000, 900);
    s.rule = "four layers: (1) token- and byte-level mutations (delete / duplicate / swap / splice / replace / truncate, stray delimiters, huge numerals, unterminated strings and comments, multi-byte characters, keywords in wrong places) of generated programs (canonical or random layout, incl. patterns with three root captures or quantified roots) and of the reference's example files; (2) accepted generated programs with a high rate of risky choices and injected run-time faults, executed with the declared globals supplied, missing or wrongly typed; (3) hand-written hazards (recursive shorthands, captures in shorthands, out-of-range numerals and regex captures, overflow, assertion-only regexes); (4) scoped variables that refer to each other, possibly in a cycle (directly, through lists, calls, comprehensions and inherited lookups), used or unused. Sources: error-free, ERROR-bearing, empty and non-ASCII trees. Oracle: File::from_str returns; an accepted file executes in both modes under a poll bound of 2000000 (a breach is re-run under 8000000 before it is reported); every load and execution error renders with Display and display_pretty to non-empty text. A panic, a process abort (signal handler writes the candidate tapes) or a poll-bound breach is a violation. Inputs with bracket nesting > 64 are discarded and counted; inputs with a `+` repetition over something that can match nothing (known finding D21, a memory error in tree-sitter's query cursor) are not executed and counted as excluded. Non-trivial: the input was executed, or rejected by the checker (not the parser). Distinct = fingerprint of (text, source).".into();
    s.assumptions = vec!["a run that neither polls nor returns can only be stopped by the driver's wall-clock timeout (reported as exit 2)".into()];
    s
}

/// A libFuzzer artifact of `c05_load_exec`, re-executed in-process.
fn artifact_case(bytes: &Vec<u8>) -> CaseOutcome {
    let text = match std::str::from_utf8(bytes) {
        Ok(t) => t,
        Err(_) => return CaseOutcome::Discard("artifact is not UTF-8"),
    };
    for source in ["pass\n", "a.b(c)\nprint d, é\n", "x = (\n", "def f(a):\n    return a\n"] {
        if let Err(f) = exercise(text, source, &BTreeMap::new()) {
            return CaseOutcome::Fail(f);
        }
    }
    CaseOutcome::Pass(CaseReport { fingerprint: fingerprint(&text), nontrivial: false, labels: vec!["libfuzzer-artifact-not-reproduced".into()], counters: vec![], sample: None, evaluations: 1 })
}

fn tape_of_bytes(bytes: &[u8]) -> Vec<u32> {
    bytes
        .chunks(4)
        .map(|c| {
            let mut b = [0u8; 4];
            b[..c.len()].copy_from_slice(c);
            u32::from_le_bytes(b)
        })
        .collect()
}

/// Inputs of known findings, run on every invocation (a libFuzzer-artifact style tape).
const PINNED: &[&str] = &["import_statement:_) name @name)\n{\n  node @name.source\n}\n", "nosuchnode) @x { print @x }\n"];

/// Child side of the D21 probe: load and execute the pinned input with no handlers installed.
pub fn crash_probe_child() {
    let _ = exercise_unguarded(D21_TEXT, "pass\nx\n", &BTreeMap::new());
}

/// Parent side: does the pinned input of D21 still kill a process?
fn d21_probe() -> CaseOutcome {
    let exe = match std::env::current_exe() {
        Ok(e) => e,
        Err(_) => return CaseOutcome::Discard("no current exe"),
    };
    let status = std::process::Command::new(exe).args(["C05", "--crash-probe"]).stdout(std::process::Stdio::null()).stderr(std::process::Stdio::null()).status();
    match status {
        Ok(st) if st.success() => CaseOutcome::Pass(CaseReport { fingerprint: fingerprint(&D21_TEXT), nontrivial: false, labels: vec!["d21-probe-survived".into()], counters: vec![], sample: None, evaluations: 1 }),
        Ok(st) => CaseOutcome::Fail(Failure::new(
            "C05:process-abort:plus-over-nullable-repetition",
            format!("a child process executing the pinned query `((_)* @stmts)+` died ({:?})", st),
            json!({"dsl": D21_TEXT, "source": "pass\nx\n"}),
        )),
        Err(_) => CaseOutcome::Discard("cannot start the probe child"),
    }
}

pub fn run_check(tier: &str) -> i32 {
    let started = std::time::Instant::now();
    let mut spec = spec(tier);
    let pinned: Vec<Vec<u8>> = PINNED.iter().map(|s| s.as_bytes().to_vec()).collect();
    let r0 = run_fixed(&spec, &pinned, artifact_case, |b| vec![0xFFFF_FF05, 0].into_iter().chain(b.iter().map(|x| *x as u32)).collect());
    // D21 kills the process: its pinned input runs in a child (`tsgv C05 --crash-probe`)
    let r21 = run_fixed(&spec, &[()], |_| d21_probe(), |_| vec![0xFFFF_FF21, 0]);
    let r0 = merge_results(r0, r21);
    let mut result = merge_results(r0, run_tapes(&spec, case));
    if tier == "thorough" && result.violations.is_empty() {
        // Driver B: libFuzzer on raw text and on tapes, 8 processes each
        let seeds: Vec<Vec<u8>> = TSG_CORPUS.iter().map(|s| s.as_bytes().to_vec()).chain(RECURSIVE_SHORTHANDS.iter().map(|s| s.as_bytes().to_vec())).collect();
        for (target, runs) in [("c05_load_exec", 40_000u64), ("c05_tape", 25_000u64)] {
            match crate::fuzzrun::run(target, runs, 8, spec.seed, if target == "c05_tape" { &[] } else { &seeds }, 4096) {
                Err(e) => harness_error(format!("libFuzzer {}: {}", target, e)),
                Ok(fr) => {
                    result.accum.evaluations += fr.executions;
                    *result.accum.counters.entry(format!("libfuzzer:{}:executions", target)).or_default() += fr.executions;
                    *result.accum.counters.entry(format!("libfuzzer:{}:corpus-files", target)).or_default() += fr.corpus_files as u64;
                    // inputs libFuzzer gave up on after 60 s: kept for inspection, never a verdict
                    for (k, pth) in fr.timeouts.iter().enumerate() {
                        let bytes = std::fs::read(pth).unwrap_or_default();
                        let known = std::str::from_utf8(&bytes).map(plus_over_nullable).unwrap_or(false);
                        let key = if known { format!("libfuzzer:{}:time-limit-inputs(known finding D21)", target) } else { format!("libfuzzer:{}:time-limit-inputs(inconclusive, saved)", target) };
                        *result.accum.counters.entry(key).or_default() += 1;
                        if !known {
                            let dir = out_root().join("evidence").join("replays");
                            let _ = std::fs::create_dir_all(&dir);
                            let _ = std::fs::write(dir.join(format!("C05-libfuzzer-time-limit-{}-{}.txt", target, k)), &bytes);
                        }
                    }
                    let arts: Vec<Vec<u8>> = fr.artifacts.iter().filter_map(|p| std::fs::read(p).ok()).collect();
                    let r = if target == "c05_tape" { run_fixed(&spec, &arts, |b| case(&tape_of_bytes(b)), |b| tape_of_bytes(b)) } else { run_fixed(&spec, &arts, artifact_case, |b| vec![0xFFFF_FF05, 0].into_iter().chain(b.iter().map(|x| *x as u32)).collect()) };
                    result = merge_results(result, r);
                }
            }
        }
        spec.rule.push_str(" Thorough tier: additionally libFuzzer (cargo-fuzz targets c05_load_exec on raw text with a dictionary and the example files as seed corpus, c05_tape on choice tapes; 8 processes each, half of them from an empty corpus; executions are counted in `counters`).");
    }
    finish(&spec, result, started)
}
