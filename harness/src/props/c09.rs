//! C09 — edges are a set, attributes are single-assignment, execute_into only adds
//! (map/set graph model advanced by the reference interpreter over histories of execute_into).

use std::collections::BTreeMap;
use super::common::*;
use crate::cval::{observe, CVal, MGraph, MNode};
use crate::engine::*;
use crate::gen::GenCfg;
use crate::interp::Outcome;
use crate::lib_api::*;
use crate::pysrc;
use crate::tree::TreeIndex;
use serde_json::json;
use tree_sitter_graph::graph::Graph;
use tree_sitter_graph::Identifier;

const NAMES: &[&str] = &["a", "b", "kind", "name", "flag", "pre"];

fn gen_attr_value(t: &mut Tape) -> CVal {
    match t.choose(5) {
        0 => CVal::Int(t.choose(4) as u32),
        1 => CVal::Str(["", "a", "pre"][t.choose(3)].to_string()),
        2 => CVal::Bool(t.chance(1, 2)),
        3 => CVal::Null,
        _ => CVal::List(vec![CVal::Int(1)]),
    }
}

const PROBE_TAG: u32 = 0xFFFF_FF09;

/// Fixed files around one node with several outgoing edges: an attribute for an edge that does
/// not exist fails whatever other edges its source has; a repeated `edge` statement makes one edge.
fn probe(i: usize) -> CaseOutcome {
    let lazy = i % 2 == 1;
    let (label, body, want): (&str, &str, Result<&str, &str>) = match i / 2 {
        0 => ("attribute-for-a-missing-edge-below-an-existing-one", "  edge a -> c\n  attr (a -> b) k = 1\n", Err("UndefinedEdge")),
        1 => ("attribute-for-a-missing-edge-above-an-existing-one", "  edge a -> b\n  attr (a -> c) k = 1\n", Err("UndefinedEdge")),
        2 => ("attribute-for-a-missing-edge-between-existing-ones", "  edge b -> a\n  edge b -> c\n  attr (b -> b) k = 1\n", Err("UndefinedEdge")),
        _ => ("repeated-edge-statement", "  edge a -> c\n  edge a -> b\n  edge a -> c\n  attr (a -> c) k = 1\n", Ok("3 nodes, 2 edges, 1 attributes")),
    };
    let dsl = format!("(module) @_m {{\n  node a\n  node b\n  node c\n{}}}\n", body);
    let source = "pass\n";
    let file = match load_valid("C09", &dsl) {
        Ok(f) => f,
        Err(o) => return o,
    };
    let tree = pysrc::parse(source);
    let index = TreeIndex::new(&tree);
    let (got, _) = run_capped(&file, &tree, &index, source, &BTreeMap::new(), &ExecOpts { lazy, debug: None }, 100_000);
    let mode = if lazy { "lazy" } else { "strict" };
    let failure = |sig: &str, msg: String| CaseOutcome::Fail(Failure::new(format!("C09:{}:probe:{}", mode, sig), msg, json!({"dsl": dsl, "source": source, "lazy": lazy})));
    match (&got, want) {
        (LibRun::Err(e), Err(kind)) if variant_name(root_cause(e)) == kind => {}
        (LibRun::Ok(g), Ok(summary)) if g.summary() == summary => {}
        (LibRun::Panic(p), _) => return failure(&p.signature(), p.message.clone()),
        (LibRun::Err(e), _) => return failure("unexpected-error", format!("{}: expected {:?}, the run failed with {}", label, want, e)),
        (LibRun::Ok(g), _) => return failure("wrong-result", format!("{}: expected {:?}, the run returned {}", label, want, g.summary())),
        _ => return failure("bad-run", format!("{}: poll bound or inconsistent graph", label)),
    }
    CaseOutcome::Pass(CaseReport { fingerprint: fingerprint(&format!("c09-probe{}", i)), nontrivial: true, labels: vec![format!("probe:{}", label)], counters: vec![], sample: None, evaluations: 1 })
}

/// Histories whose calls run on different trees (and different files) into one graph: what the
/// earlier calls built must stay, re-created edges keep their attributes, equal re-assignment is
/// accepted, a different value fails, and new nodes are numbered after the existing ones.
/// `v` = bit 0-2: mode of call 1-3 (1 = lazy), bit 3: the third call assigns a different value.
fn multi_tree_probe(v: usize) -> CaseOutcome {
    let sources = ["a = 1\n", "def f(): pass\nb = 2\n", "pass\npass\npass\n"];
    let conflict = v & 8 != 0;
    let files = [
        "(module) @m {\n  node x\n  node y\n  edge x -> y\n  attr (x) name = \"first\"\n  attr (x -> y) k = 1\n  attr (y) idx = (named-child-count @m)\n}\n".to_string(),
        "global n0\nglobal n1\n(module) @m {\n  node z\n  edge n0 -> n1\n  attr (n0 -> n1) k = 1\n  attr (n0 -> n1) j = 2\n  edge n1 -> z\n  attr (n0) name = \"first\"\n  attr (z) idx = (named-child-count @m)\n}\n".to_string(),
        format!("global n0\nglobal n1\nglobal n2\n(module) @m {{\n  node w\n  edge n0 -> n1\n  edge n1 -> n2\n  edge w -> n0\n  attr (n0 -> n1) k = {}\n  attr (w) idx = (named-child-count @m)\n  attr (n2) idx = 2\n}}\n", if conflict { 2 } else { 1 }),
    ];
    let trees: Vec<_> = sources.iter().map(|s| pysrc::parse(s)).collect();
    let indexes: Vec<_> = trees.iter().map(|t| TreeIndex::new(t)).collect();
    let mut graph = Graph::new();
    let int = |i: u32| CVal::Int(i);
    let attrs = |kv: &[(&str, CVal)]| kv.iter().map(|(k, v)| (k.to_string(), v.clone())).collect::<BTreeMap<String, CVal>>();
    let mut expected: Vec<MGraph> = vec![];
    let mut g = MGraph::default();
    g.nodes.push(MNode { attrs: attrs(&[("name", CVal::Str("first".into()))]), edges: [(1usize, attrs(&[("k", int(1))]))].into_iter().collect() });
    g.nodes.push(MNode { attrs: attrs(&[("idx", int(1))]), edges: BTreeMap::new() });
    expected.push(g.clone());
    g.nodes[0].edges.get_mut(&1).unwrap().insert("j".into(), int(2));
    g.nodes[1].edges.insert(2, BTreeMap::new());
    g.nodes.push(MNode { attrs: attrs(&[("idx", int(2))]), edges: BTreeMap::new() });
    expected.push(g.clone());
    g.nodes.push(MNode { attrs: attrs(&[("idx", int(3))]), edges: [(0usize, BTreeMap::new())].into_iter().collect() });
    expected.push(g.clone());
    let mut history = vec![];
    for call in 0..3 {
        let lazy = v >> call & 1 == 1;
        let mode = if lazy { "lazy" } else { "strict" };
        let dsl = &files[call];
        history.push(json!({"call": call, "mode": mode, "dsl": dsl, "source": sources[call]}));
        let failure = |sig: &str, msg: String, history: &Vec<serde_json::Value>| CaseOutcome::Fail(Failure::new(format!("C09:{}:multi-tree:{}", mode, sig), msg, json!({"history": history, "variant": v})));
        let file = match load_valid("C09", dsl) {
            Ok(f) => f,
            Err(o) => return o,
        };
        let mut globals = BTreeMap::new();
        for i in 0..call + 1 {
            if call > 0 {
                globals.insert(format!("n{}", i), CVal::GNode(i));
            }
        }
        let flag = CountingFlag::with_cap(100_000);
        let outcome = execute_into(&file, &mut graph, &trees[call], &indexes[call], sources[call], &globals, &ExecOpts { lazy, debug: None }, &flag);
        let obs = match observe(&graph, &indexes[call]) {
            Ok(o) => o,
            Err(e) => return failure("structure", format!("after call {} the graph is structurally inconsistent: {}", call, e), &history),
        };
        match outcome {
            ExecOutcome::Panic(p) => return failure(&p.signature(), format!("execute_into panicked in call {}: {}", call, p.message), &history),
            ExecOutcome::PollBound(_) => return failure("poll-bound", format!("call {} polled more than 100000 times", call), &history),
            ExecOutcome::Err(e) => {
                if call == 2 && conflict && variant_name(root_cause(&e)) == "DuplicateAttribute" {
                    if obs.nodes.len() < 3 {
                        return failure("nodes-lost", format!("the failed call removed graph nodes (3 -> {})", obs.nodes.len()), &history);
                    }
                    continue;
                }
                return failure(&format!("unexpected-error:{}", variant_name(root_cause(&e))), format!("call {} ({}) failed: {}", call, mode, e), &history);
            }
            ExecOutcome::Ok => {
                if call == 2 && conflict {
                    return failure("missing-error:DuplicateAttribute", format!("call 2 ({}) assigns k = 2 to an edge whose k is 1 and succeeded; graph {}", mode, obs.to_json()), &history);
                }
                if obs != expected[call] {
                    return failure("graph-differs", format!("after call {} ({}) the graph is not the previous graph plus what the file adds: expected {} got {}", call, mode, expected[call].to_json(), obs.to_json()), &history);
                }
            }
        }
    }
    CaseOutcome::Pass(CaseReport { fingerprint: fingerprint(&format!("c09-multi-tree{}", v)), nontrivial: true, labels: vec![format!("probe:multi-tree-history:{}", if conflict { "conflicting-third-call" } else { "three-successful-calls" })], counters: vec![], sample: Some(json!({"history": history})), evaluations: 3 })
}

/// Two calls of one file on two trees whose matched statements start at the same byte and have the
/// same kind: what the second call reads through `@s` belongs to the second tree.
/// `v` = bit 0-1: mode of call 1-2 (1 = lazy).
fn same_position_probe(v: usize) -> CaseOutcome {
    let sources = ["a = 1\n", "bb = 22\ndef f(): pass\n"];
    let dsl = "(module (expression_statement) @s) {\n  node t\n  attr (t) txt = (source-text @s)\n  attr (t) col = (end-column @s)\n  attr (t) ty = (node-type @s)\n}\n";
    let trees: Vec<_> = sources.iter().map(|s| pysrc::parse(s)).collect();
    let indexes: Vec<_> = trees.iter().map(|t| TreeIndex::new(t)).collect();
    let mut graph = Graph::new();
    let node = |txt: &str, col: u32| MNode { attrs: [("txt".to_string(), CVal::Str(txt.into())), ("col".to_string(), CVal::Int(col)), ("ty".to_string(), CVal::Str("expression_statement".into()))].into_iter().collect(), edges: BTreeMap::new() };
    let mut expected = MGraph::default();
    let file = match load_valid("C09", dsl) {
        Ok(f) => f,
        Err(o) => return o,
    };
    let mut history = vec![];
    for call in 0..2 {
        let lazy = v >> call & 1 == 1;
        let mode = if lazy { "lazy" } else { "strict" };
        expected.nodes.push(if call == 0 { node("a = 1", 5) } else { node("bb = 22", 7) });
        history.push(json!({"call": call, "mode": mode, "dsl": dsl, "source": sources[call]}));
        let failure = |sig: &str, msg: String| CaseOutcome::Fail(Failure::new(format!("C09:{}:same-position:{}", mode, sig), msg, json!({"history": history, "variant": v})));
        let flag = CountingFlag::with_cap(100_000);
        let outcome = execute_into(&file, &mut graph, &trees[call], &indexes[call], sources[call], &BTreeMap::new(), &ExecOpts { lazy, debug: None }, &flag);
        let obs = match observe(&graph, &indexes[call]) {
            Ok(o) => o,
            Err(e) => return failure("structure", format!("after call {} the graph is structurally inconsistent: {}", call, e)),
        };
        match outcome {
            ExecOutcome::Panic(p) => return failure(&p.signature(), format!("execute_into panicked in call {}: {}", call, p.message)),
            ExecOutcome::PollBound(_) => return failure("poll-bound", format!("call {} polled more than 100000 times", call)),
            ExecOutcome::Err(e) => return failure(&format!("unexpected-error:{}", variant_name(root_cause(&e))), format!("call {} ({}) failed: {}", call, mode, e)),
            ExecOutcome::Ok if obs != expected => return failure("graph-differs", format!("after call {} ({}) the graph is not the previous graph plus what the file adds on this tree: expected {} got {}", call, mode, expected.to_json(), obs.to_json())),
            ExecOutcome::Ok => {}
        }
    }
    CaseOutcome::Pass(CaseReport { fingerprint: fingerprint(&format!("c09-same-position{}", v)), nontrivial: true, labels: vec!["probe:two-trees-same-statement-position".to_string()], counters: vec![], sample: Some(json!({"history": history})), evaluations: 2 })
}

fn fixed_probe(i: usize) -> CaseOutcome {
    match i {
        0..=7 => probe(i),
        8..=23 => multi_tree_probe(i - 8),
        _ => same_position_probe(i - 24),
    }
}

pub fn case(tape: &[u32]) -> CaseOutcome {
    if tape.len() == 2 && tape[0] == PROBE_TAG {
        return fixed_probe(tape[1] as usize);
    }
    let (aux, main) = split_tape(tape);
    let mut t = Tape::new(&aux);
    let mut gt = Tape::new(&main);
    let source = pysrc::gen_source(&mut t);
    let tree = pysrc::parse(&source);
    let index = TreeIndex::new(&tree);
    let mut graph = Graph::new();
    let mut model = MGraph::default();
    let mut history: Vec<serde_json::Value> = vec![];
    // pre-populate through the public API
    let mut prepopulated_edge_attrs = 0;
    if t.chance(2, 3) {
        let n = 1 + t.choose(5);
        for _ in 0..n {
            graph.add_graph_node();
            model.nodes.push(MNode::default());
        }
        let refs: Vec<_> = graph.iter_nodes().collect();
        let mut ops = vec![];
        for i in 0..n {
            for _ in 0..t.choose(3) {
                let name = NAMES[t.choose(NAMES.len())];
                let v = gen_attr_value(&mut t);
                let value = to_value(&v, &mut graph, &index);
                // Attributes::add stores the new value in every case (and reports a conflict)
                let _ = graph[refs[i]].attributes.add(Identifier::from(name), value);
                model.nodes[i].attrs.insert(name.to_string(), v.clone());
                ops.push(format!("node {} attr {} = {:?}", i, name, v));
            }
            for _ in 0..t.choose(4) {
                let sink = t.choose(n);
                let _ = graph[refs[i]].add_edge(refs[sink]);
                model.nodes[i].edges.entry(sink).or_default();
                ops.push(format!("edge {} -> {}", i, sink));
                for _ in 0..t.choose(3) {
                    let name = NAMES[t.choose(NAMES.len())];
                    let v = gen_attr_value(&mut t);
                    let value = to_value(&v, &mut graph, &index);
                    let _ = graph[refs[i]].get_edge_mut(refs[sink]).unwrap().attributes.add(Identifier::from(name), value);
                    model.nodes[i].edges.get_mut(&sink).unwrap().insert(name.to_string(), v.clone());
                    prepopulated_edge_attrs += 1;
                    ops.push(format!("edge {} -> {} attr {} = {:?}", i, sink, name, v));
                }
            }
        }
        history.push(json!({"prepopulate": ops}));
    }
    let ncalls = 1 + t.choose(3);
    // a quarter of the histories run every call with debug attributes switched on: they are taken
    // out before the comparison with the reference, and those already in the graph must stay
    const DEBUG_NAMES: [&str; 3] = ["zz-loc", "zz-var", "zz-match"];
    let with_debug = t.chance(1, 4);
    let debug_opt = if with_debug { Some((DEBUG_NAMES[0].to_string(), DEBUG_NAMES[1].to_string(), DEBUG_NAMES[2].to_string())) } else { None };
    let mut debug_seen: BTreeMap<(usize, Option<usize>, String), CVal> = BTreeMap::new();
    let mut report = CaseReport::default();
    report.evaluations = 0;
    let mut labels = vec![];
    let mut nontrivial = false;
    for call in 0..ncalls {
        let lazy = t.chance(1, 2);
        let mode = if lazy { "lazy" } else { "strict" };
        let mut cfg = if lazy { GenCfg::fragment() } else { GenCfg::full() };
        cfg.collisions = true;
        cfg.prints = false;
        cfg.max_stanzas = 4;
        cfg.risk = 8;
        cfg.fault = t.chance(1, 6);
        cfg.gnode_globals = model.nodes.len().min(1 + t.choose(3));
        cfg.globals = false;
        let program = make_program(&mut gt, &cfg);
        let dsl = program.printed.text.clone();
        let mut globals = program.gen.globals.clone();
        for i in 0..cfg.gnode_globals {
            globals.insert(format!("n{}", i), CVal::GNode(t.choose(model.nodes.len())));
        }
        let file = match load_valid("C09", &dsl) {
            Ok(f) => f,
            Err(o) => return o,
        };
        let before = model.clone();
        let run_model = model_run(&program.gen.prog, &tree, &index, &source, &globals, model.clone());
        let flag = CountingFlag::with_cap(run_model.poll_cap());
        let outcome = execute_into(&file, &mut graph, &tree, &index, &source, &globals, &ExecOpts { lazy, debug: debug_opt.clone() }, &flag);
        report.evaluations += 1;
        history.push(json!({"call": call, "mode": mode, "dsl": dsl, "globals": globals_json(&globals)}));
        let d = |extra: serde_json::Value| json!({"source": source, "history": history, "more": extra});
        let mut obs = match observe(&graph, &index) {
            Ok(o) => o,
            Err(e) => return CaseOutcome::Fail(Failure::new(format!("C09:{}:structure", mode), format!("after call {} the graph is structurally inconsistent: {}", call, e), d(json!({})))),
        };
        if with_debug {
            let mut now: BTreeMap<(usize, Option<usize>, String), CVal> = BTreeMap::new();
            for (i, n) in obs.nodes.iter_mut().enumerate() {
                for name in DEBUG_NAMES {
                    if let Some(v) = n.attrs.remove(name) {
                        now.insert((i, None, name.to_string()), v);
                    }
                }
                for (sink, attrs) in n.edges.iter_mut() {
                    for name in DEBUG_NAMES {
                        if let Some(v) = attrs.remove(name) {
                            now.insert((i, Some(*sink), name.to_string()), v);
                        }
                    }
                }
            }
            for (k, v) in &debug_seen {
                if now.get(k) != Some(v) {
                    return CaseOutcome::Fail(Failure::new(
                        format!("C09:{}:existing-debug-attribute-changed", mode),
                        format!("call {} changed the debug attribute {} of {} from {:?} to {:?}", call, k.2, match k.1 { Some(s) => format!("edge {} -> {}", k.0, s), None => format!("node {}", k.0) }, v, now.get(k)),
                        d(json!({})),
                    ));
                }
            }
            debug_seen = now;
            labels.push("debug-attributes-on".to_string());
        }
        if obs.nodes.len() < before.nodes.len() {
            return CaseOutcome::Fail(Failure::new(format!("C09:{}:nodes-lost", mode), format!("call {} removed graph nodes ({} -> {})", call, before.nodes.len(), obs.nodes.len()), d(json!({}))));
        }
        match (&run_model.outcome, outcome) {
            (_, ExecOutcome::Panic(p)) => return CaseOutcome::Fail(Failure::new(format!("C09:{}:{}", mode, p.signature()), format!("execute_into panicked in call {}: {}", call, p.message), d(json!({})))),
            (Outcome::Err(_), ExecOutcome::PollBound(_)) => report.counters.push(("inconclusive:poll-bound-next-to-failing-reference-run".into(), 1)),
            (_, ExecOutcome::PollBound(_)) => return CaseOutcome::Fail(Failure::new(format!("C09:{}:poll-bound", mode), "poll bound".to_string(), d(json!({})))),
            (Outcome::Inconclusive(why), _) => {
                report.counters.push((format!("inconclusive:{}", why.split(':').next().unwrap_or("")), 1));
            }
            (Outcome::Ok, ExecOutcome::Ok) => match compare_graphs(&run_model.graph, &obs, before.nodes.len()) {
                Cmp::Same => labels.push(format!("{}:ok", mode)),
                Cmp::Inconclusive => report.counters.push(("inconclusive:isomorphism-budget".into(), 1)),
                Cmp::Different(why) => {
                    // say what happened to the pre-existing part
                    let mut lost = vec![];
                    for (i, n) in before.nodes.iter().enumerate() {
                        for (k, v) in &n.attrs {
                            if obs.nodes[i].attrs.get(k) != Some(v) {
                                lost.push(format!("node {} attribute {} was {:?}, now {:?}", i, k, v, obs.nodes[i].attrs.get(k)));
                            }
                        }
                        for (s, attrs) in &n.edges {
                            match obs.nodes[i].edges.get(s) {
                                None => lost.push(format!("edge {} -> {} disappeared", i, s)),
                                Some(now) => {
                                    for (k, v) in attrs {
                                        if now.get(k) != Some(v) {
                                            lost.push(format!("edge {} -> {} attribute {} was {:?}, now {:?}", i, s, k, v, now.get(k)));
                                        }
                                    }
                                }
                            }
                        }
                    }
                    let sig = if lost.is_empty() { format!("C09:{}:graph-differs", mode) } else { format!("C09:{}:existing-content-changed", mode) };
                    return CaseOutcome::Fail(Failure::new(
                        sig,
                        format!("after call {} ({}) the graph is not the previous graph plus what the file adds: {} {:?}", call, mode, why, lost),
                        d(json!({"expected_graph": run_model.graph.to_json(), "actual_graph": obs.to_json()})),
                    ));
                }
            },
            (Outcome::Ok, ExecOutcome::Err(e)) => {
                return CaseOutcome::Fail(Failure::new(format!("C09:{}:unexpected-error:{}", mode, variant_name(root_cause(&e))), format!("call {} ({}) failed: {}", call, mode, e), d(json!({"expected_graph": run_model.graph.to_json()}))));
            }
            (Outcome::Err(re), ExecOutcome::Ok) => {
                if !lazy || re.kind.order_independent() {
                    return CaseOutcome::Fail(Failure::new(
                        format!("C09:{}:missing-error:{:?}", mode, re.kind),
                        format!("call {} ({}) must fail ({:?}: {}), it succeeded", call, mode, re.kind, re.msg),
                        d(json!({"expected_error": rerr_json(re), "actual_graph": obs.to_json()})),
                    ));
                }
                labels.push("lazy-ok-where-strict-fails".into());
            }
            (Outcome::Err(re), ExecOutcome::Err(_)) => labels.push(format!("{}:err:{:?}", mode, re.kind)),
        }
        let tr = &run_model.trace;
        let multi_stmt_edge = tr.edge_stmts.values().any(|v| v.len() >= 2);
        if multi_stmt_edge {
            labels.push("edge-from->=2-statements-or-matches".into());
        }
        if tr.preexisting_edge_recreated > 0 {
            labels.push("pre-existing-edge-recreated".into());
        }
        if tr.attr_reassigned_equal > 0 {
            labels.push("attribute-reassigned-equal".into());
        }
        if matches!(run_model.outcome, Outcome::Ok) && (multi_stmt_edge || (call >= 1 && (tr.preexisting_edge_recreated > 0 || tr.attr_reassigned_equal > 0)) || (tr.preexisting_edge_recreated > 0 && prepopulated_edge_attrs > 0)) {
            nontrivial = true;
        }
        // continue from what the library now holds
        model = obs;
    }
    labels.push(format!("calls:{}", ncalls));
    labels.sort();
    labels.dedup();
    report.fingerprint = fingerprint(&format!("{:?}", history));
    report.nontrivial = nontrivial;
    report.labels = labels;
    report.sample = Some(json!({"source": source, "history": history}));
    CaseOutcome::Pass(report)
}

pub fn spec(tier: &str) -> Spec {
    let mut s = Spec::new("C09", tier, 4_000, 50_000, 1500);
    s.rule = "histories on one Graph: optionally pre-populated through the public API (1-5 nodes, attributed nodes and edges), then 1-3 execute_into calls, each with its own generated collision-heavy program (shared anchor nodes, repeated edge statements, re-assigned attributes; lazy calls stay in the order-insensitive fragment), mode chosen per call, and 1-3 of the graph's existing nodes passed back in as GraphNode globals; generated histories use one tree, sixteen fixed histories use a different tree and file per call. Oracle: the reference interpreter advances a map/set model of the graph from the state before the call; after a successful call the observed graph must be isomorphic to the model with all pre-existing nodes fixed in place (so every existing node, edge and attribute value is intact and new nodes are numbered after them) and iter_edges must be strictly ascending; a call the model says must fail must fail; after a failed call only structural invariants are checked and the model is re-synchronised. Eight fixed probes (an attribute for a missing edge whose source has other edges below / above / around the missing sink, a repeated edge statement; strict and lazy) and sixteen fixed three-call histories over three different trees and files (every strict/lazy combination; re-created edge keeps its attributes, equal re-assignment accepted, tree-dependent attribute values, new nodes numbered after the old; in eight of them the third call assigns a different value and must fail with DuplicateAttribute), and four two-call histories of one file on two trees whose matched statements share start byte and kind (what the second call reads through its capture belongs to the second tree). Non-trivial: one edge created by >=2 statements/matches, or a later call (or a call on a pre-populated attributed edge) that re-creates an existing edge or re-assigns an attribute. Distinct = fingerprint of the whole history.".into();
    s.assumptions = vec!["all calls of one generated history use the same tree (syntax-node references are resolved through one tree index); histories over different trees are the sixteen fixed ones, which store no syntax-node values".into(), "graph state after a failed execute_into is unspecified beyond structural consistency".into()];
    s
}

pub fn run_check(tier: &str) -> i32 {
    let started = std::time::Instant::now();
    let spec = spec(tier);
    let probes: Vec<usize> = (0..28).collect();
    let rp = run_fixed(&spec, &probes, |i| fixed_probe(*i), |i| vec![PROBE_TAG, *i as u32]);
    let result = merge_results(rp, run_tapes(&spec, case));
    finish(&spec, result, started)
}
