//! S4 — reference interpreter for GProg, written from the language reference (src/reference).
//! It shares with the library only tree-sitter (parsing, query matching), the regex crate and the
//! Python grammar.

use crate::cval::{CVal, MGraph, MNode};
use crate::dsl::*;
use crate::pool;
use crate::stdlib;
use crate::tree::TreeIndex;
use regex::Regex;
use std::cell::RefCell;
use std::collections::{BTreeMap, BTreeSet, HashMap};
use streaming_iterator::StreamingIterator;
use tree_sitter::{QueryCursor, Tree};

#[derive(Clone, Debug, PartialEq, Eq, PartialOrd, Ord)]
pub enum ErrKind {
    /// wrong value type (expected graph node / list / string / boolean / syntax-node scope ...)
    Type,
    DuplicateAttribute,
    DuplicateVariable,
    UndefinedVariable,
    UndefinedScopedVariable,
    /// set of an immutable or undefined variable
    BadAssign,
    UndefinedEdge,
    FunctionFailed,
    UndefinedFunction,
    UndefinedRegexCapture,
    EmptyRegexMatch,
    MissingGlobal,
    GlobalNotList,
    UndefinedCapture,
    RecursiveShorthand,
    MissingFullMatch,
}

impl ErrKind {
    /// Does not depend on evaluation order (C02's list).
    pub fn order_independent(&self) -> bool {
        matches!(
            self,
            ErrKind::Type
                | ErrKind::DuplicateAttribute
                | ErrKind::DuplicateVariable
                | ErrKind::FunctionFailed
                | ErrKind::UndefinedFunction
                | ErrKind::UndefinedRegexCapture
                | ErrKind::MissingGlobal
                | ErrKind::GlobalNotList
        )
    }
}

#[derive(Clone, Debug)]
pub struct Site {
    /// index of the stanza among the file's stanzas
    pub stanza: usize,
    pub stanza_id: Id,
    /// pre-order number of the node the stanza matched
    pub root: usize,
    /// match number within the stanza (0-based)
    pub match_no: usize,
    /// ids of the enclosing statements, outermost first; the last is the failing statement
    pub path: Vec<Id>,
}

#[derive(Clone, Debug)]
pub struct RErr {
    pub kind: ErrKind,
    pub msg: String,
    pub site: Option<Site>,
}

#[derive(Clone, Debug, Default)]
pub struct Trace {
    pub matches: u64,
    pub statements: u64,
    pub attributes: u64,
    pub scan_iterations: u64,
    pub arm_runs: u64,
    pub loop_iterations: u64,
    pub if_taken: u64,
    pub shorthand_expansions: u64,
    pub scoped_reads: u64,
    pub scoped_inherited_reads: u64,
    /// inherited reads with at least two defining ancestors
    pub scoped_inherited_multi: u64,
    /// scoped reads / definitions on a node that shares its byte range with its parent
    pub same_range_touched: u64,
    pub scoped_defs: u64,
    /// executed definitions of plain (unscoped) variables by let / var / node statements
    pub plain_defs: u64,
    pub calls: u64,
    pub max_depth: usize,
    /// matches per stanza
    pub per_stanza: Vec<u64>,
    /// graph node index -> origin
    pub node_origin: BTreeMap<usize, NodeOrigin>,
    /// (source, sink) -> ids of the edge statements that executed for this edge, in order
    pub edge_stmts: BTreeMap<(usize, usize), Vec<Id>>,
    /// edges re-created by an `edge` statement although they existed before this execution
    pub preexisting_edge_recreated: u64,
    pub attr_reassigned_equal: u64,
    /// statement kinds executed
    pub kinds: BTreeSet<&'static str>,
    /// a scoped variable was read through a capture / expression other than the one it was
    /// defined through
    pub scoped_cross_reads: u64,
}

#[derive(Clone, Debug)]
pub struct NodeOrigin {
    /// id of the `node` statement (None: created by the `node` function)
    pub stmt: Option<Id>,
    /// id of the variable in the `node` statement
    pub var_id: Option<Id>,
    pub var_text: Option<String>,
    pub match_root: usize,
    pub stanza: usize,
}

pub enum Outcome {
    Ok,
    Err(RErr),
    /// the premise of the comparison is ambiguous for this input (see DESIGN §4/§5)
    Inconclusive(String),
}

pub struct Interp<'a> {
    pub prog: &'a GProg,
    pub tree: &'a Tree,
    pub index: &'a TreeIndex<'a>,
    pub source: &'a str,
    pub globals: BTreeMap<String, CVal>,
    pub graph: MGraph,
    pub trace: Trace,
    pub prints: u64,
    /// for a failure "scoped variable defined twice": the statement that defined it first
    pub conflict_with: Option<Id>,
    scoped_def_stmt: BTreeMap<(usize, String), Id>,
    scoped: BTreeMap<(usize, String), (CVal, bool, Id)>,
    inherited: BTreeSet<String>,
    shorthand_count: usize,
    /// number of graph nodes that existed before this execution
    base_nodes: usize,
    base_edges: BTreeSet<(usize, usize)>,
    step_budget: u64,
}

struct Env<'e> {
    frames: Vec<BTreeMap<String, (CVal, bool)>>,
    caps: &'e BTreeMap<String, CVal>,
    regex: Option<Vec<String>>,
    site: Site,
    in_shorthand: bool,
}

enum Flow {
    Err(RErr),
    Inconclusive(String),
}

type R<T> = Result<T, Flow>;

thread_local! {
    static REGEX_CACHE: RefCell<HashMap<String, Option<(Regex, Regex)>>> = RefCell::new(HashMap::new());
}

/// (plain, anchored at start) compiled forms of an arm regex.
fn arm_regex(pattern: &str) -> Option<(Regex, Regex)> {
    REGEX_CACHE.with(|c| {
        if let Some(v) = c.borrow().get(pattern) {
            return v.clone();
        }
        let v = match (Regex::new(pattern), Regex::new(&format!("\\A(?:{})", pattern))) {
            (Ok(a), Ok(b)) => Some((a, b)),
            _ => None,
        };
        if c.borrow().len() > 4000 {
            c.borrow_mut().clear();
        }
        c.borrow_mut().insert(pattern.to_string(), v.clone());
        v
    })
}

/// Does the pattern use an assertion whose result depends on the text before the match start?
pub fn has_lookbehind_assertion(pattern: &str) -> bool {
    let mut prev_backslash = false;
    let mut in_class = false;
    for c in pattern.chars() {
        if prev_backslash {
            prev_backslash = false;
            if matches!(c, 'b' | 'B' | 'A' | 'z' | 'G') && !in_class {
                return true;
            }
            continue;
        }
        match c {
            '\\' => prev_backslash = true,
            '[' => in_class = true,
            ']' => in_class = false,
            '^' if !in_class => return true,
            _ => {}
        }
    }
    // inline flags can change the meaning of $ and ^
    pattern.contains("(?")
}

#[derive(Debug, Clone, PartialEq)]
pub struct ScanStep {
    pub arm: usize,
    pub start: usize,
    pub end: usize,
    pub groups: Vec<String>,
}

#[derive(Debug, Clone, PartialEq)]
pub enum ScanPlanEnd {
    Done,
    /// a winning empty match at this step: execution must fail
    Empty,
    /// a non-winning arm matched empty: raising an error or ignoring it are both accepted
    AmbiguousEmpty,
}

/// The next scan match from byte position `p`: spec-style (walk positions, earlier arm first).
/// Returns Ok(None) when nothing matches.
pub fn scan_next_spec(s: &str, p: usize, arms: &[(Regex, Regex)]) -> Option<ScanStep> {
    let mut q = p;
    while q <= s.len() {
        if s.is_char_boundary(q) {
            for (i, (_, anchored)) in arms.iter().enumerate() {
                if let Some(c) = anchored.captures(&s[q..]) {
                    let m = c.get(0).unwrap();
                    let groups = c.iter().map(|g| g.map(|m| m.as_str().to_string()).unwrap_or_default()).collect();
                    return Some(ScanStep { arm: i, start: q, end: q + m.end(), groups });
                }
            }
        }
        q += 1;
    }
    None
}

/// The next scan match from byte position `p`: per-arm leftmost search on the suffix.
/// Second component: some non-winning arm's first match was empty.
pub fn scan_next_search(s: &str, p: usize, arms: &[(Regex, Regex)]) -> (Option<ScanStep>, bool) {
    let mut best: Option<ScanStep> = None;
    let mut empties: Vec<usize> = vec![];
    for (i, (plain, _)) in arms.iter().enumerate() {
        if let Some(c) = plain.captures(&s[p..]) {
            let m = c.get(0).unwrap();
            if m.start() == m.end() {
                empties.push(i);
            }
            let step = ScanStep {
                arm: i,
                start: p + m.start(),
                end: p + m.end(),
                groups: c.iter().map(|g| g.map(|m| m.as_str().to_string()).unwrap_or_default()).collect(),
            };
            let better = match &best {
                None => true,
                Some(b) => step.start < b.start,
            };
            if better {
                best = Some(step);
            }
        }
    }
    let other_empty = match &best {
        Some(b) => empties.iter().any(|i| *i != b.arm),
        None => false,
    };
    (best, other_empty)
}

impl<'a> Interp<'a> {
    pub fn new(
        prog: &'a GProg,
        tree: &'a Tree,
        index: &'a TreeIndex<'a>,
        source: &'a str,
        supplied: &BTreeMap<String, CVal>,
        graph: MGraph,
    ) -> Interp<'a> {
        let mut base_edges = BTreeSet::new();
        for (i, n) in graph.nodes.iter().enumerate() {
            for s in n.edges.keys() {
                base_edges.insert((i, *s));
            }
        }
        Interp {
            prog,
            tree,
            index,
            source,
            globals: supplied.clone(),
            base_nodes: graph.nodes.len(),
            base_edges,
            graph,
            trace: Trace::default(),
            prints: 0,
            conflict_with: None,
            scoped_def_stmt: BTreeMap::new(),
            scoped: BTreeMap::new(),
            inherited: prog.inherited().iter().map(|s| s.to_string()).collect(),
            shorthand_count: prog.shorthand_count(),
            step_budget: 400_000,
        }
    }

    fn err<T>(&self, kind: ErrKind, msg: impl Into<String>, env: &Env) -> R<T> {
        Err(Flow::Err(RErr { kind, msg: msg.into(), site: Some(env.site.clone()) }))
    }

    pub fn run(&mut self) -> Outcome {
        match self.run_inner() {
            Ok(()) => Outcome::Ok,
            Err(Flow::Err(e)) => Outcome::Err(e),
            Err(Flow::Inconclusive(w)) => Outcome::Inconclusive(w),
        }
    }

    fn run_inner(&mut self) -> R<()> {
        // globals: required unless defaulted; list-typed when declared so
        for (name, quant, default) in self.prog.globals() {
            match self.globals.get(name) {
                None => match default {
                    Some(d) => {
                        self.globals.insert(name.to_string(), CVal::Str(d.to_string()));
                    }
                    None => {
                        return Err(Flow::Err(RErr { kind: ErrKind::MissingGlobal, msg: format!("missing global {}", name), site: None }));
                    }
                },
                Some(v) => {
                    if quant.is_list() && !matches!(v, CVal::List(_)) {
                        return Err(Flow::Err(RErr { kind: ErrKind::GlobalNotList, msg: format!("global {} must be a list", name), site: None }));
                    }
                }
            }
        }
        let stanzas: Vec<&Stanza> = self.prog.stanzas().collect();
        self.trace.per_stanza = vec![0; stanzas.len()];
        for (si, stanza) in stanzas.iter().enumerate() {
            let matches = match stanza_matches(stanza, self.tree, self.index, self.source) {
                Ok(m) => m,
                Err(w) => return Err(Flow::Inconclusive(w)),
            };
            for (mi, m) in matches.iter().enumerate() {
                self.trace.matches += 1;
                self.trace.per_stanza[si] += 1;
                let root = match m.root {
                    Some(r) => r,
                    None => {
                        return Err(Flow::Err(RErr {
                            kind: ErrKind::MissingFullMatch,
                            msg: "match without a root node".into(),
                            site: None,
                        }))
                    }
                };
                let mut env = Env {
                    frames: vec![BTreeMap::new()],
                    caps: &m.caps,
                    regex: None,
                    site: Site { stanza: si, stanza_id: stanza.id, root, match_no: mi, path: vec![] },
                    in_shorthand: false,
                };
                self.block(&stanza.body, &mut env, false)?;
            }
        }
        Ok(())
    }

    fn block(&mut self, stmts: &[Stmt], env: &mut Env, new_frame: bool) -> R<()> {
        if new_frame {
            env.frames.push(BTreeMap::new());
        }
        self.trace.max_depth = self.trace.max_depth.max(env.frames.len());
        let mut result = Ok(());
        for s in stmts {
            env.site.path.push(s.id());
            let r = self.stmt(s, env);
            if r.is_err() {
                // keep the path of the failing statement in the error (already cloned)
                result = r;
                env.site.path.pop();
                break;
            }
            env.site.path.pop();
        }
        if new_frame {
            env.frames.pop();
        }
        result
    }

    fn tick(&mut self) -> R<()> {
        if self.step_budget == 0 {
            return Err(Flow::Inconclusive("reference interpreter step budget exhausted".into()));
        }
        self.step_budget -= 1;
        Ok(())
    }

    fn stmt(&mut self, s: &Stmt, env: &mut Env) -> R<()> {
        self.tick()?;
        self.trace.statements += 1;
        self.trace.kinds.insert(s.kind());
        match s {
            Stmt::Let { var, value, .. } => {
                let v = self.eval(value, env)?;
                self.add_var(var, v, false, env)
            }
            Stmt::Var { var, value, .. } => {
                let v = self.eval(value, env)?;
                self.add_var(var, v, true, env)
            }
            Stmt::Set { var, value, .. } => {
                let v = self.eval(value, env)?;
                self.set_var(var, v, env)
            }
            Stmt::Node { id, var } => {
                let n = self.graph.nodes.len();
                self.graph.nodes.push(MNode::default());
                let var_text = match var {
                    VarRef::Plain { name, .. } => name.clone(),
                    VarRef::Scoped { scope, name, .. } => format!("{}.{}", expr_text(scope), name),
                };
                self.trace.node_origin.insert(
                    n,
                    NodeOrigin { stmt: Some(*id), var_id: Some(var.id()), var_text: Some(var_text), match_root: env.site.root, stanza: env.site.stanza },
                );
                self.add_var(var, CVal::GNode(n), false, env)
            }
            Stmt::Edge { id, src, dst } => {
                let a = self.eval(src, env)?;
                let a = self.gnode(a, env)?;
                let b = self.eval(dst, env)?;
                let b = self.gnode(b, env)?;
                let existed = self.graph.nodes[a].edges.contains_key(&b);
                if existed && self.base_edges.contains(&(a, b)) {
                    self.trace.preexisting_edge_recreated += 1;
                }
                self.graph.nodes[a].edges.entry(b).or_default();
                self.trace.edge_stmts.entry((a, b)).or_default().push(*id);
                Ok(())
            }
            Stmt::AttrNode { node, attrs, .. } => {
                let n = self.eval(node, env)?;
                let n = self.gnode(n, env)?;
                for a in attrs {
                    self.attribute(a, env, 0, &mut |me: &mut Interp, name: &str, value: CVal, env: &Env| {
                        let slot = &mut me.graph.nodes[n].attrs;
                        match slot.get(name) {
                            Some(old) if old != &value => me.err(ErrKind::DuplicateAttribute, format!("attribute {} on node {} already has a different value", name, n), env),
                            Some(_) => {
                                me.trace.attr_reassigned_equal += 1;
                                Ok(())
                            }
                            None => {
                                slot.insert(name.to_string(), value);
                                Ok(())
                            }
                        }
                    })?;
                }
                Ok(())
            }
            Stmt::AttrEdge { src, dst, attrs, .. } => {
                let a = self.eval(src, env)?;
                let a = self.gnode(a, env)?;
                let b = self.eval(dst, env)?;
                let b = self.gnode(b, env)?;
                for at in attrs {
                    self.attribute(at, env, 0, &mut |me: &mut Interp, name: &str, value: CVal, env: &Env| {
                        let slot = match me.graph.nodes[a].edges.get_mut(&b) {
                            Some(s) => s,
                            None => return me.err(ErrKind::UndefinedEdge, format!("no edge {} -> {}", a, b), env),
                        };
                        match slot.get(name) {
                            Some(old) if old != &value => me.err(ErrKind::DuplicateAttribute, format!("attribute {} on edge {}->{} already has a different value", name, a, b), env),
                            Some(_) => {
                                me.trace.attr_reassigned_equal += 1;
                                Ok(())
                            }
                            None => {
                                slot.insert(name.to_string(), value);
                                Ok(())
                            }
                        }
                    })?;
                }
                Ok(())
            }
            Stmt::Print { values, .. } => {
                for v in values {
                    if !matches!(v, Expr::Str(_)) {
                        self.eval(v, env)?;
                    }
                }
                self.prints += 1;
                Ok(())
            }
            Stmt::Scan { value, arms, .. } => {
                let v = self.eval(value, env)?;
                let s = match v {
                    CVal::Str(s) => s,
                    other => return self.err(ErrKind::Type, format!("scan of a {}", other.type_name()), env),
                };
                let mut compiled = vec![];
                let mut assertions = false;
                for a in arms {
                    match arm_regex(&a.regex) {
                        Some(r) => compiled.push(r),
                        None => return Err(Flow::Inconclusive(format!("regex {} does not compile", a.regex))),
                    }
                    assertions |= has_lookbehind_assertion(&a.regex);
                }
                let mut p = 0;
                while p < s.len() {
                    self.tick()?;
                    self.trace.scan_iterations += 1;
                    let (searched, other_empty) = scan_next_search(&s, p, &compiled);
                    let step = if assertions {
                        if other_empty {
                            // at the very start the remaining text is the whole subject: whatever
                            // the restart context of an implementation, this arm matches the
                            // empty string, and such a regex "raises an error at run time"
                            if p == 0 {
                                return self.err(ErrKind::EmptyRegexMatch, "a scan arm that does not win matched the empty string at the start of the subject".to_string(), env);
                            }
                            return Err(Flow::Inconclusive("a non-winning scan arm matched the empty string".into()));
                        }
                        searched
                    } else {
                        let spec = scan_next_spec(&s, p, &compiled);
                        if spec != searched {
                            panic!("scan oracles disagree on assertion-free regexes {:?} subject {:?} at {}: {:?} vs {:?}", arms.iter().map(|a| &a.regex).collect::<Vec<_>>(), s, p, spec, searched);
                        }
                        if other_empty {
                            return Err(Flow::Inconclusive("a non-winning scan arm matched the empty string".into()));
                        }
                        spec
                    };
                    let step = match step {
                        Some(st) => st,
                        None => break,
                    };
                    if step.end == step.start {
                        return self.err(ErrKind::EmptyRegexMatch, format!("regex {} matched the empty string", arms[step.arm].regex), env);
                    }
                    self.trace.arm_runs += 1;
                    let saved = env.regex.replace(step.groups.clone());
                    let r = self.block(&arms[step.arm].body, env, true);
                    env.regex = saved;
                    r?;
                    p = step.end;
                }
                Ok(())
            }
            Stmt::If { arms, .. } => {
                for arm in arms {
                    let mut all = true;
                    for c in &arm.conds {
                        let ok = match c {
                            Cond::Some(_, e) => !matches!(self.eval(e, env)?, CVal::Null),
                            Cond::None(_, e) => matches!(self.eval(e, env)?, CVal::Null),
                            Cond::Bool(_, e) => match self.eval(e, env)? {
                                CVal::Bool(b) => b,
                                other => return self.err(ErrKind::Type, format!("condition is a {}", other.type_name()), env),
                            },
                        };
                        all &= ok;
                    }
                    if all {
                        self.trace.if_taken += 1;
                        return self.block(&arm.body, env, true);
                    }
                }
                Ok(())
            }
            Stmt::For { var, value, body, .. } => {
                let v = self.eval(value, env)?;
                let items = match v {
                    CVal::List(xs) => xs,
                    other => return self.err(ErrKind::Type, format!("for over a {}", other.type_name()), env),
                };
                for item in items {
                    self.tick()?;
                    self.trace.loop_iterations += 1;
                    env.frames.push(BTreeMap::new());
                    let r = (|| {
                        if self.globals.contains_key(var) {
                            return self.err(ErrKind::DuplicateVariable, format!("loop variable {} hides a global", var), env);
                        }
                        env.frames.last_mut().unwrap().insert(var.clone(), (item, false));
                        self.block(body, env, false)
                    })();
                    env.frames.pop();
                    r?;
                }
                Ok(())
            }
        }
    }

    fn gnode(&self, v: CVal, env: &Env) -> R<usize> {
        match v {
            CVal::GNode(n) if n < self.graph.nodes.len() => Ok(n),
            CVal::GNode(n) => Err(Flow::Inconclusive(format!("graph node {} outside the model graph", n))),
            other => self.err(ErrKind::Type, format!("expected a graph node, got {}", other.type_name()), env),
        }
    }

    fn attribute(
        &mut self,
        a: &Attr,
        env: &mut Env,
        depth: usize,
        add: &mut dyn FnMut(&mut Interp, &str, CVal, &Env) -> R<()>,
    ) -> R<()> {
        self.trace.attributes += 1;
        let value = match &a.value {
            Some(e) => self.eval(e, env)?,
            None => CVal::Bool(true),
        };
        if let Some((var, body)) = self.prog.shorthand(&a.name) {
            if depth >= self.shorthand_count {
                return self.err(ErrKind::RecursiveShorthand, format!("shorthand {} expands to itself", a.name), env);
            }
            self.trace.shorthand_expansions += 1;
            if self.globals.contains_key(var) {
                return self.err(ErrKind::DuplicateVariable, format!("shorthand variable {} hides a global", var), env);
            }
            let mut frame = BTreeMap::new();
            frame.insert(var.to_string(), (value, false));
            let mut inner = Env { frames: vec![frame], caps: env.caps, regex: env.regex.clone(), site: env.site.clone(), in_shorthand: true };
            let body: Vec<Attr> = body.clone();
            for b in &body {
                self.attribute(b, &mut inner, depth + 1, add)?;
            }
            Ok(())
        } else {
            add(self, &a.name, value, env)
        }
    }

    fn add_var(&mut self, var: &VarRef, value: CVal, mutable: bool, env: &mut Env) -> R<()> {
        match var {
            VarRef::Plain { name, .. } => {
                if self.globals.contains_key(name) {
                    return self.err(ErrKind::DuplicateVariable, format!("{} hides a global", name), env);
                }
                let frame = env.frames.last_mut().unwrap();
                if frame.contains_key(name) {
                    return self.err(ErrKind::DuplicateVariable, format!("{} already defined in this block", name), env);
                }
                frame.insert(name.clone(), (value, mutable));
                self.trace.plain_defs += 1;
                Ok(())
            }
            VarRef::Scoped { id, scope, name } => {
                let node = self.scope_node(scope, env)?;
                let key = (node, name.clone());
                if self.scoped.contains_key(&key) {
                    self.conflict_with = self.scoped_def_stmt.get(&key).copied();
                    return self.err(ErrKind::DuplicateVariable, format!("{} already defined on node {}", name, node), env);
                }
                self.trace.scoped_defs += 1;
                if let Some(stmt) = env.site.path.last() {
                    self.scoped_def_stmt.insert(key.clone(), *stmt);
                }
                self.scoped.insert(key, (value, mutable, *id));
                Ok(())
            }
        }
    }

    fn set_var(&mut self, var: &VarRef, value: CVal, env: &mut Env) -> R<()> {
        match var {
            VarRef::Plain { name, .. } => {
                if self.globals.contains_key(name) {
                    return self.err(ErrKind::BadAssign, format!("cannot assign global {}", name), env);
                }
                for frame in env.frames.iter_mut().rev() {
                    if let Some(slot) = frame.get_mut(name) {
                        if !slot.1 {
                            return Err(Flow::Err(RErr { kind: ErrKind::BadAssign, msg: format!("{} is immutable", name), site: Some(env.site.clone()) }));
                        }
                        slot.0 = value;
                        return Ok(());
                    }
                }
                self.err(ErrKind::BadAssign, format!("{} is undefined", name), env)
            }
            VarRef::Scoped { scope, name, .. } => {
                let node = self.scope_node(scope, env)?;
                match self.scoped.get_mut(&(node, name.clone())) {
                    Some(slot) if slot.1 => {
                        slot.0 = value;
                        Ok(())
                    }
                    Some(_) => self.err(ErrKind::BadAssign, format!("{} on node {} is immutable", name, node), env),
                    None => self.err(ErrKind::BadAssign, format!("{} is not defined on node {}", name, node), env),
                }
            }
        }
    }

    fn scope_node(&mut self, scope: &Expr, env: &mut Env) -> R<usize> {
        match self.eval(scope, env)? {
            CVal::Syn(n) => {
                let info = &self.index.nodes[n];
                if let Some(p) = info.parent {
                    let pi = &self.index.nodes[p];
                    if pi.start_byte == info.start_byte && pi.end_byte == info.end_byte {
                        self.trace.same_range_touched += 1;
                    }
                }
                Ok(n)
            }
            other => self.err(ErrKind::Type, format!("scope is a {}", other.type_name()), env),
        }
    }

    pub fn eval(&mut self, e: &Expr, env: &mut Env) -> R<CVal> {
        self.tick()?;
        Ok(match e {
            Expr::Null => CVal::Null,
            Expr::True => CVal::Bool(true),
            Expr::False => CVal::Bool(false),
            Expr::Int(v, _) => CVal::Int(*v),
            Expr::Str(s) => CVal::Str(s.clone()),
            Expr::List(xs) => {
                let mut out = vec![];
                for x in xs {
                    out.push(self.eval(x, env)?);
                }
                CVal::List(out)
            }
            Expr::Set(xs) => {
                let mut out = BTreeSet::new();
                for x in xs {
                    out.insert(self.eval(x, env)?);
                }
                CVal::Set(out)
            }
            Expr::ListComp { elem, var, src, .. } | Expr::SetComp { elem, var, src, .. } => {
                let items = match self.eval(src, env)? {
                    CVal::List(xs) => xs,
                    other => return self.err(ErrKind::Type, format!("comprehension over a {}", other.type_name()), env),
                };
                let mut out = vec![];
                for item in items {
                    self.trace.loop_iterations += 1;
                    if self.globals.contains_key(var) {
                        return self.err(ErrKind::DuplicateVariable, format!("comprehension variable {} hides a global", var), env);
                    }
                    let mut frame = BTreeMap::new();
                    frame.insert(var.clone(), (item, false));
                    env.frames.push(frame);
                    let r = self.eval(elem, env);
                    env.frames.pop();
                    out.push(r?);
                }
                if matches!(e, Expr::ListComp { .. }) {
                    CVal::List(out)
                } else {
                    CVal::Set(out.into_iter().collect())
                }
            }
            Expr::Capture { name, .. } => {
                if env.in_shorthand {
                    return self.err(ErrKind::UndefinedCapture, format!("capture @{} inside a shorthand", name), env);
                }
                match env.caps.get(name) {
                    Some(v) => v.clone(),
                    None => return self.err(ErrKind::UndefinedCapture, format!("capture @{} is not defined", name), env),
                }
            }
            Expr::Var { name, .. } => {
                if let Some(v) = self.globals.get(name) {
                    v.clone()
                } else {
                    let mut found = None;
                    for frame in env.frames.iter().rev() {
                        if let Some(slot) = frame.get(name) {
                            found = Some(slot.0.clone());
                            break;
                        }
                    }
                    match found {
                        Some(v) => v,
                        None => return self.err(ErrKind::UndefinedVariable, format!("{} is undefined", name), env),
                    }
                }
            }
            Expr::Scoped { scope, name, id } => {
                let node = self.scope_node(scope, env)?;
                self.trace.scoped_reads += 1;
                if let Some(slot) = self.scoped.get(&(node, name.clone())) {
                    if slot.2 != *id {
                        self.trace.scoped_cross_reads += 1;
                    }
                    slot.0.clone()
                } else if self.inherited.contains(name) {
                    let mut found = None;
                    let mut defining = 0;
                    for anc in self.index.ancestors(node) {
                        if let Some(slot) = self.scoped.get(&(anc, name.clone())) {
                            if found.is_none() {
                                found = Some(slot.0.clone());
                            }
                            defining += 1;
                        }
                    }
                    match found {
                        Some(v) => {
                            self.trace.scoped_inherited_reads += 1;
                            if defining >= 2 {
                                self.trace.scoped_inherited_multi += 1;
                            }
                            v
                        }
                        None => return self.err(ErrKind::UndefinedScopedVariable, format!("{} is not defined on node {} or its ancestors", name, node), env),
                    }
                } else {
                    return self.err(ErrKind::UndefinedScopedVariable, format!("{} is not defined on node {}", name, node), env);
                }
            }
            Expr::Call { func, args } => {
                let mut vals = vec![];
                for a in args {
                    vals.push(self.eval(a, env)?);
                }
                self.trace.calls += 1;
                if func == "tick" && vals.is_empty() {
                    // harness-provided probe function (C11): returns 0
                    return Ok(CVal::Int(0));
                }
                if !stdlib::FUNCTIONS.contains(&func.as_str()) {
                    return self.err(ErrKind::UndefinedFunction, format!("undefined function {}", func), env);
                }
                match stdlib::call(func, &vals, self.index, self.source) {
                    Ok(stdlib::CallResult::Value(v)) => v,
                    Ok(stdlib::CallResult::NewNode) => {
                        let n = self.graph.nodes.len();
                        self.graph.nodes.push(MNode::default());
                        self.trace.node_origin.insert(n, NodeOrigin { stmt: None, var_id: None, var_text: None, match_root: env.site.root, stanza: env.site.stanza });
                        CVal::GNode(n)
                    }
                    Err(why) => return self.err(ErrKind::FunctionFailed, format!("{}: {}", func, why), env),
                }
            }
            Expr::RegexCap(n) => match env.regex.as_ref().and_then(|g| g.get(*n)) {
                Some(s) => CVal::Str(s.clone()),
                None => return self.err(ErrKind::UndefinedRegexCapture, format!("${} is not defined", n), env),
            },
            Expr::Raw(_) => return Err(Flow::Inconclusive("raw expression".into())),
        })
    }

    /// Steps the reference interpreter took (statements, expressions, loop iterations).
    pub fn steps_used(&self) -> u64 {
        400_000 - self.step_budget
    }

    pub fn new_nodes(&self) -> usize {
        self.graph.nodes.len() - self.base_nodes
    }
}

pub fn expr_text(e: &Expr) -> String {
    // the text the library's Display for ast::Expression produces (only the forms that occur as
    // scopes of `node` variables matter)
    match e {
        Expr::Capture { name, .. } => format!("@{}", name),
        Expr::Var { name, .. } => name.clone(),
        Expr::Scoped { scope, name, .. } => format!("{}.{}", expr_text(scope), name),
        Expr::Null => "#null".into(),
        Expr::True => "true".into(),
        Expr::False => "false".into(),
        Expr::Int(v, _) => format!("{}", v),
        Expr::Str(s) => format!("{:?}", s),
        Expr::RegexCap(n) => format!("${}", n),
        Expr::Call { func, args } => {
            let mut s = format!("({}", func);
            for a in args {
                s.push(' ');
                s.push_str(&expr_text(a));
            }
            s.push(')');
            s
        }
        Expr::List(xs) => format!("[{}]", xs.iter().map(expr_text).collect::<Vec<_>>().join(", ")),
        Expr::Set(xs) => format!("{{{}}}", xs.iter().map(expr_text).collect::<Vec<_>>().join(", ")),
        Expr::ListComp { elem, var, src, .. } => format!("[ {} for {} in {} ]", expr_text(elem), var, expr_text(src)),
        Expr::SetComp { elem, var, src, .. } => format!("{{ {} for {} in {} }}", expr_text(elem), var, expr_text(src)),
        Expr::Raw(s) => s.clone(),
    }
}

// ------------------------------------------------------------------------------------------------
// Matching (independent recomputation with tree-sitter)

#[derive(Debug, Clone, PartialEq)]
pub struct RefMatch {
    /// pre-order number of the matched root node (None: the match has no root node)
    pub root: Option<usize>,
    /// capture name -> value (node / null / list, by the capture's quantifier)
    pub caps: BTreeMap<String, CVal>,
    /// capture name -> nodes
    pub nodes: BTreeMap<String, Vec<usize>>,
}

/// All matches of the stanza's own pattern, in the order tree-sitter reports them.
pub fn stanza_matches(stanza: &Stanza, tree: &Tree, index: &TreeIndex, source: &str) -> Result<Vec<RefMatch>, String> {
    let cq = pool::compile(&stanza.query).ok_or_else(|| format!("query does not compile on its own: {}", stanza.query))?;
    let collect = |query: &tree_sitter::Query, with_root: bool| -> Result<Vec<RefMatch>, String> {
        let mut cursor = QueryCursor::new();
        let names = query.capture_names();
        let mut out = vec![];
        let mut it = cursor.matches(query, tree.root_node(), source.as_bytes());
        while let Some(m) = it.next() {
            let mut nodes: BTreeMap<String, Vec<usize>> = BTreeMap::new();
            let mut root = None;
            for c in m.captures {
                let pre = index.pre_of(&c.node).ok_or_else(|| "captured node not in the tree index".to_string())?;
                if with_root && c.index == cq.root_index {
                    if root.is_none() {
                        root = Some(pre);
                    }
                } else {
                    nodes.entry(names[c.index as usize].to_string()).or_default().push(pre);
                }
            }
            let mut caps = BTreeMap::new();
            for cap in &cq.captures {
                let ns = nodes.get(&cap.name).cloned().unwrap_or_default();
                let v = match cap.quant {
                    Quant::One => match ns.first() {
                        Some(n) => CVal::Syn(*n),
                        None => return Err(format!("capture @{} has quantifier One but no node", cap.name)),
                    },
                    Quant::Opt => ns.first().map(|n| CVal::Syn(*n)).unwrap_or(CVal::Null),
                    Quant::Star | Quant::Plus => CVal::List(ns.iter().map(|n| CVal::Syn(*n)).collect()),
                };
                caps.insert(cap.name.clone(), v);
            }
            out.push(RefMatch { root, caps, nodes });
            if out.len() > 20_000 {
                return Err("too many matches".into());
            }
        }
        Ok(out)
    };
    let plain = collect(&cq.plain, false)?;
    let rooted = collect(&cq.rooted, true)?;
    if plain.len() != rooted.len() || plain.iter().zip(rooted.iter()).any(|(a, b)| a.nodes != b.nodes) {
        return Err(format!(
            "adding a root capture changes the matches tree-sitter reports for {:?} ({} vs {})",
            stanza.query,
            plain.len(),
            rooted.len()
        ));
    }
    Ok(rooted)
}
