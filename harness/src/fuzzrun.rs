//! Driver B: coverage-guided fuzzing with libFuzzer (cargo-fuzz crate in /verif/fuzz), used by the
//! thorough tiers of C05 and C18.  The targets carry the semantic oracle and abort on a violation;
//! every crash artifact is re-executed in-process by the caller to obtain its failure signature.

use crate::engine::{note, verif_root};
use std::path::PathBuf;
use std::process::Command;

pub struct FuzzResult {
    pub executions: u64,
    /// crash artifacts (the target aborted): re-executed in-process by the caller
    pub artifacts: Vec<PathBuf>,
    /// inputs libFuzzer gave up on after its per-input time limit (never re-executed in-process)
    pub timeouts: Vec<PathBuf>,
    pub corpus_files: usize,
}

fn fuzz_dir() -> PathBuf {
    verif_root().join("fuzz")
}

/// Build the target (against /repo's working tree) and run `jobs` libFuzzer processes with
/// `runs_per_job` executions each, seeds `seed`, `seed+1`, ..  Corpus directories are fresh.
pub fn run(target: &str, runs_per_job: u64, jobs: usize, seed: u64, seeds: &[Vec<u8>], max_len: usize) -> Result<FuzzResult, String> {
    let dir = fuzz_dir();
    let build = Command::new("cargo")
        .args(["+nightly", "fuzz", "build", "--fuzz-dir", &dir.to_string_lossy(), target])
        .env("CARGO_NET_OFFLINE", "true")
        .env("RUST_BACKTRACE", "0")
        .output()
        .map_err(|e| format!("cannot run cargo fuzz build: {}", e))?;
    if !build.status.success() {
        return Err(format!("cargo fuzz build {} failed: {}", target, String::from_utf8_lossy(&build.stderr).lines().rev().take(15).collect::<Vec<_>>().join(" | ")));
    }
    let bin = dir.join("target").join("x86_64-unknown-linux-gnu").join("release").join(target);
    if !bin.exists() {
        return Err(format!("fuzz binary {} not found", bin.display()));
    }
    let work = verif_root().join(".work").join("fuzz").join(format!("{}-{}-{}", target, seed, std::process::id()));
    let _ = std::fs::remove_dir_all(&work);
    let dict = dir.join("tsg.dict");
    let mut children = vec![];
    for j in 0..jobs {
        let corpus = work.join(format!("corpus-{}", j));
        let arts = work.join(format!("artifacts-{}", j));
        std::fs::create_dir_all(&corpus).map_err(|e| e.to_string())?;
        std::fs::create_dir_all(&arts).map_err(|e| e.to_string())?;
        // seed corpus: every other job starts from an empty corpus
        if j % 2 == 0 {
            for (k, s) in seeds.iter().enumerate() {
                let _ = std::fs::write(corpus.join(format!("seed-{}", k)), s);
            }
        }
        let mut cmd = Command::new(&bin);
        cmd.arg(&corpus)
            .arg(format!("-runs={}", runs_per_job))
            .arg(format!("-seed={}", seed.wrapping_mul(1000).wrapping_add(j as u64 + 1)))
            .arg("-len_control=0")
            .arg(format!("-max_len={}", max_len))
            .arg("-timeout=60")
            // leaks of the C library on its error paths are nobody's property here, and the first
            // one would end the campaign of that process
            .arg("-detect_leaks=0")
            .arg("-rss_limit_mb=4096")
            .arg("-print_final_stats=1")
            .arg(format!("-artifact_prefix={}/", arts.display()))
            .env("RUST_BACKTRACE", "0")
            .stdout(std::process::Stdio::null())
            .stderr(std::process::Stdio::piped());
        if dict.exists() && !target.starts_with("c18") && target != "c05_tape" {
            cmd.arg(format!("-dict={}", dict.display()));
        }
        children.push((cmd.spawn().map_err(|e| format!("cannot start {}: {}", bin.display(), e))?, arts, corpus));
    }
    let mut executions = 0u64;
    let mut artifacts = vec![];
    let mut timeouts = vec![];
    let mut corpus_files = 0;
    for (child, arts, corpus) in children {
        let out = child.wait_with_output().map_err(|e| e.to_string())?;
        let err = String::from_utf8_lossy(&out.stderr);
        for line in err.lines() {
            if let Some(n) = line.strip_prefix("stat::number_of_executed_units:") {
                executions += n.trim().parse::<u64>().unwrap_or(0);
            }
        }
        if let Ok(rd) = std::fs::read_dir(&arts) {
            for e in rd.flatten() {
                let name = e.file_name().to_string_lossy().to_string();
                if name.starts_with("timeout-") || name.starts_with("oom-") || name.starts_with("slow-unit-") {
                    timeouts.push(e.path());
                } else if name.starts_with("leak-") {
                    // not a property of the library under test
                } else {
                    artifacts.push(e.path());
                }
            }
        }
        corpus_files += std::fs::read_dir(&corpus).map(|r| r.count()).unwrap_or(0);
        if !out.status.success() && std::fs::read_dir(&arts).map(|r| r.count()).unwrap_or(0) == 0 {
            note(&format!("libFuzzer {} ended with {:?} without an artifact: {}", target, out.status, err.lines().rev().take(5).collect::<Vec<_>>().join(" | ")));
        }
    }
    Ok(FuzzResult { executions, artifacts, timeouts, corpus_files })
}
