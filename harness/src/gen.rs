//! S3 (part 2) — generator of DSL programs from a choice tape.  It threads a static environment
//! (names, mutability, static locality and quantifier as the reference's checker rules define
//! them, a type guess) so programs are accepted by construction and mostly well-typed; profiles
//! switch fragments on and off.

use crate::cval::CVal;
use crate::dsl::*;
use crate::engine::Tape;
use crate::pool::{self, PoolEntry, D7_POOL, POOL};
use std::collections::{BTreeMap, BTreeSet};

#[derive(Clone, Debug)]
pub struct GenCfg {
    /// append the three-stanza edge idiom (edge attribute put on from another stanza) to 1 in 4 programs
    pub edge_idiom: bool,
    pub max_stanzas: usize,
    pub max_depth: usize,
    pub max_stmts: usize,
    /// order-insensitive fragment (C02 / C08): no var/set on scoped variables; inherited names are
    /// defined before (in file order) they are read and never both in one stanza
    pub fragment: bool,
    /// graph-node references may be rendered to text (format / join / print)
    pub gnode_text: bool,
    pub prints: bool,
    pub shorthands: bool,
    pub globals: bool,
    pub scans: bool,
    /// bias towards scoped variables (C04)
    pub scoped_heavy: bool,
    /// bias towards shared anchor nodes, repeated edges and re-assigned attributes (C09 / C15)
    pub collisions: bool,
    /// probability (percent) of a risky choice (may fail at run time) at each opportunity
    pub risk: u32,
    /// inject one deliberate run-time fault
    pub fault: bool,
    /// allow patterns of the D7 class (C05 only)
    pub d7: bool,
    /// only these pool entries (empty: all)
    pub pool_subset: Vec<usize>,
    /// declare at least one global
    pub force_globals: bool,
    /// sprinkle calls of the harness-provided `(tick)` function (C11)
    pub tick: bool,
    /// declare this many globals `n0`, `n1`, .. that the caller binds to existing graph nodes (C09)
    pub gnode_globals: usize,
}

impl GenCfg {
    pub fn full() -> GenCfg {
        GenCfg {
            edge_idiom: true,
            max_stanzas: 8,
            max_depth: 4,
            max_stmts: 5,
            fragment: false,
            gnode_text: false,
            prints: true,
            shorthands: true,
            globals: true,
            scans: true,
            scoped_heavy: false,
            collisions: false,
            risk: 4,
            fault: false,
            d7: false,
            pool_subset: vec![],
            force_globals: false,
            tick: false,
            gnode_globals: 0,
        }
    }
    pub fn fragment() -> GenCfg {
        GenCfg { fragment: true, ..GenCfg::full() }
    }
}

#[derive(Clone, Debug, PartialEq)]
pub enum Ty {
    Null,
    Bool,
    Int,
    Str,
    Syn,
    GNode,
    List(Box<Ty>),
    Set(Box<Ty>),
    /// any value (elements of heterogeneous lists)
    Any,
}

#[derive(Clone, Debug)]
struct Local {
    name: String,
    ty: Ty,
    mutable: bool,
    /// static locality by the reference's rules
    local: bool,
    quant: Quant,
    /// bound by `for` / comprehension / shorthand (quantifier unknown to the checker)
    binder: bool,
    /// the node behind a GNode variable was created in this very frame
    fresh_node: bool,
    /// node kinds of a Syn-typed variable ("*" = anything)
    kinds: &'static str,
    /// immutable variable bound directly to this capture (`let v = @cap`)
    alias_of: Option<String>,
}

#[derive(Clone, Debug)]
struct CapInfo {
    name: String,
    quant: Quant,
    kinds: &'static str,
    used: bool,
    placeholder: &'static str,
}

#[derive(Clone, Debug, PartialEq)]
enum Coverage {
    /// defined on every node of this kind by an earlier stanza
    Kind(&'static str),
    /// defined in this stanza through exactly this capture, at the top level of the block
    Exact { stanza: usize, cap: String },
    /// defined on the module node and declared `inherit`: readable from every node
    ModuleInherited,
}

#[derive(Clone, Debug)]
struct ScopedInfo {
    name: String,
    ty: Ty,
    mutable: bool,
    coverage: Coverage,
    def_stanza: usize,
    /// for Syn-typed variables: kinds of the node they hold
    syn_kinds: &'static str,
    /// further kinds on which later stanzas define this (inherited) name
    extra_kinds: Vec<&'static str>,
}

#[derive(Clone, Debug)]
struct ShorthandInfo {
    name: String,
    arg: Ty,
    expands_to: Vec<String>,
}

#[derive(Clone, Debug)]
struct GlobalInfo {
    name: String,
    quant: Quant,
    ty: Ty,
}

pub struct Generated {
    pub prog: GProg,
    /// the globals the caller supplies
    pub globals: BTreeMap<String, CVal>,
    pub features: BTreeSet<&'static str>,
    pub fault: Option<&'static str>,
    /// id of the injected fault statement
    pub fault_id: Option<Id>,
    /// for conflicts between two statements: the ids of both
    pub fault_pair: Option<(Id, Id)>,
}

const CAP_NAMES: &[&str] = &["x", "y", "n", "m", "xs", "a", "b", "item", "some_x", "none-y"];
const LOCAL_NAMES: &[&str] = &["v", "w", "cur", "acc", "tmp", "something", "none_left", "format", "in_x", "letter", "node-id", "k"];
const ATTR_NAMES: &[&str] = &["a", "b", "c", "kind", "name", "idx", "flag", "x-y", "text", "n"];
const STRS: &[&str] = &["", "a", "b", "ab", "foo/bar.py", "x{}y", "é", "a b", "{{}}", "$1", "two\nlines", "tab\tquote\"back\\slash"];
const SCAN_SUBJECTS: &[&str] = &["ab/ba.py", "aab", "foo/bar.py", "abab", "xa1é2", "a/b/c.py", "é", "a", "b12"];
pub const REGEXES: &[&str] = &["a", "[ab]+", "b|ab", "(a)(b)?", "[^/]+/", "([a-z]+)\\.py$", "é", ".", "(x)|(a)", "a+b*", "\\d+", "(?:ab)+", "b$", "(x)?([ab])", "([0-9]+)|([a-z]+)", "(a)(/)?(b)?", "\\b", "\\b[a-z]*"];

struct G<'t, 'b> {
    t: &'t mut Tape<'b>,
    cfg: GenCfg,
    ids: Ids,
    frames: Vec<Vec<Local>>,
    caps: Vec<CapInfo>,
    globals: Vec<GlobalInfo>,
    scoped: Vec<ScopedInfo>,
    inherited: BTreeSet<String>,
    shorthands: Vec<ShorthandInfo>,
    regex_groups: Option<usize>,
    counter: usize,
    stanza_idx: usize,
    /// scoped names read in the current stanza (fragment rule: not also defined here if inherited)
    features: BTreeSet<&'static str>,
    /// attribute names already put on a target in the current frame: (frame depth, target text)
    attr_used: Vec<BTreeMap<String, BTreeSet<String>>>,
    /// edges created in the current frame: (src text, dst text)
    edges_here: Vec<Vec<(Expr, Expr)>>,
    in_shorthand_body: bool,
    fault_pending: Option<&'static str>,
    fault_at: usize,
    stmt_count: usize,
    fault_done: Option<&'static str>,
    current_entry_covers: Option<(String, &'static str)>,
    loop_depth: usize,
    extra_items: Vec<Item>,
    /// scoped names read so far
    read_names: BTreeSet<String>,
    /// inherited names defined in the current stanza
    defined_here: BTreeSet<String>,
    fault_id: Option<Id>,
    fault_pair: Option<(Id, Id)>,
}

impl<'t, 'b> G<'t, 'b> {
    fn id(&mut self) -> Id {
        self.ids.next()
    }

    fn risky(&mut self) -> bool {
        let r = self.cfg.risk;
        self.t.chance(r, 100)
    }

    fn fresh_name(&mut self, base: &str) -> String {
        self.counter += 1;
        format!("{}{}", base, self.counter)
    }

    fn local_name(&mut self) -> String {
        // mostly fresh names; sometimes a keyword-prefixed or shadowing name
        let base = LOCAL_NAMES[self.t.choose(LOCAL_NAMES.len())];
        let name = if self.t.chance(1, 3) { base.to_string() } else { self.fresh_name(base) };
        // not in the current frame, not a global
        if self.frames.last().unwrap().iter().any(|l| l.name == name) || self.globals.iter().any(|g| g.name == name) {
            self.fresh_name(base)
        } else {
            name
        }
    }

    fn lookup(&self, name: &str) -> Option<&Local> {
        for f in self.frames.iter().rev() {
            if let Some(l) = f.iter().rev().find(|l| l.name == name) {
                return Some(l);
            }
        }
        None
    }

    /// visible locals (innermost definition per name)
    fn visible(&self) -> Vec<Local> {
        let mut seen = BTreeSet::new();
        let mut out = vec![];
        for f in self.frames.iter().rev() {
            for l in f.iter().rev() {
                if seen.insert(l.name.clone()) {
                    out.push(l.clone());
                }
            }
        }
        out
    }

    // ---------------------------------------------------------------------------------------
    // expressions

    fn base_scopes(&self) -> Vec<(Expr, &'static str)> {
        // expressions that evaluate to one syntax node, with the kinds they can have
        let mut out = vec![];
        if !self.in_shorthand_body {
            for c in &self.caps {
                if c.quant == Quant::One {
                    out.push((Expr::Capture { id: 0, name: c.name.clone() }, c.kinds));
                }
            }
        }
        for l in self.visible() {
            if l.ty == Ty::Syn {
                out.push((Expr::Var { id: 0, name: l.name.clone() }, l.kinds));
            }
        }
        out
    }

    fn syn_sources(&self, need_local: bool) -> Vec<(Expr, &'static str)> {
        let mut out = vec![];
        if !self.in_shorthand_body {
            for c in &self.caps {
                if c.quant == Quant::One {
                    out.push((Expr::Capture { id: 0, name: c.name.clone() }, c.kinds));
                }
            }
        }
        for l in self.visible() {
            if l.ty == Ty::Syn && (l.local || !need_local) {
                out.push((Expr::Var { id: 0, name: l.name.clone() }, l.kinds));
            }
        }
        if !need_local {
            // syntax nodes stored in scoped variables (`let @a.ref = @b` ... `@a.ref`)
            let base = self.base_scopes();
            for (e, info) in self.scoped_via(&base, &|s| s.ty == Ty::Syn) {
                out.push((e, info.syn_kinds));
            }
        }
        out
    }

    fn mark_cap(&mut self, e: &Expr) {
        if let Expr::Capture { name, .. } = e {
            if let Some(c) = self.caps.iter_mut().find(|c| &c.name == name) {
                c.used = true;
            }
        }
    }

    fn with_ids(&mut self, e: Expr) -> Expr {
        match e {
            Expr::Capture { name, .. } => Expr::Capture { id: self.id(), name },
            Expr::Var { name, .. } => Expr::Var { id: self.id(), name },
            Expr::Scoped { .. } => self.finish_scoped(e),
            other => other,
        }
    }

    fn syn_expr(&mut self, need_local: bool) -> Option<(Expr, &'static str)> {
        let srcs = self.syn_sources(need_local);
        if srcs.is_empty() {
            return None;
        }
        let (e, k) = srcs[self.t.choose(srcs.len())].clone();
        self.mark_cap(&e);
        Some((self.with_ids(e), k))
    }

    fn kinds_subset(kinds: &str, of: &str) -> bool {
        if kinds == "*" {
            return false;
        }
        kinds.split('|').all(|k| k == of)
    }

    /// Reads of scoped variables accepted by `pred`, through the given scope expressions, that
    /// are defined by construction when they execute.
    fn scoped_via(&self, scopes: &[(Expr, &'static str)], pred: &dyn Fn(&ScopedInfo) -> bool) -> Vec<(Expr, ScopedInfo)> {
        let mut out = vec![];
        if self.in_shorthand_body {
            return out;
        }
        for s in self.scoped.iter().filter(|s| pred(s)) {
            for (scope, kinds) in scopes {
                let ok = match &s.coverage {
                    Coverage::Kind(k) => s.def_stanza < self.stanza_idx && Self::kinds_subset(kinds, k),
                    Coverage::Exact { stanza, cap } => *stanza == self.stanza_idx && matches!(scope, Expr::Capture { name, .. } if name == cap),
                    // an inherited name is not read in a stanza that defines it
                    Coverage::ModuleInherited => s.def_stanza < self.stanza_idx && !self.defined_here.contains(&s.name),
                };
                if ok {
                    out.push((Expr::Scoped { id: 0, scope: Box::new(scope.clone()), name: s.name.clone() }, s.clone()));
                }
            }
        }
        out
    }

    /// Scoped variables of type `ty` readable here without risk: through captures and Syn locals,
    /// and through syntax nodes stored in other scoped variables (nested scopes).
    fn scoped_reads(&self, ty: &Ty) -> Vec<Expr> {
        let base = self.base_scopes();
        let mut out: Vec<Expr> = self.scoped_via(&base, &|s| &s.ty == ty).into_iter().map(|x| x.0).collect();
        let links: Vec<(Expr, &'static str)> = self.scoped_via(&base, &|s| s.ty == Ty::Syn && s.syn_kinds != "*").into_iter().map(|(e, i)| (e, i.syn_kinds)).collect();
        out.extend(self.scoped_via(&links, &|s| &s.ty == ty).into_iter().map(|x| x.0));
        out
    }

    fn finish_scoped(&mut self, e: Expr) -> Expr {
        match e {
            Expr::Scoped { scope, name, .. } => {
                if matches!(*scope, Expr::Scoped { .. }) {
                    self.features.insert("nested-scope-read");
                }
                if matches!(*scope, Expr::Var { .. }) {
                    self.features.insert("scoped-read-through-local");
                }
                let scope = self.reid(*scope);
                self.features.insert("scoped-read");
                self.read_names.insert(name.clone());
                Expr::Scoped { id: self.id(), scope: Box::new(scope), name }
            }
            other => other,
        }
    }

    fn lit(&mut self, ty: &Ty, need_local: bool, depth: usize) -> Expr {
        match ty {
            Ty::Null => Expr::Null,
            Ty::Bool => {
                if self.t.chance(1, 2) {
                    Expr::True
                } else {
                    Expr::False
                }
            }
            Ty::Int => {
                let v = *self.t.pick(&[0u32, 1, 2, 3, 7, 10, 42, 4294967295]);
                let zeros = if self.t.chance(1, 10) { 2 } else { 0 };
                Expr::Int(v, zeros)
            }
            Ty::Str => Expr::Str(STRS[self.t.choose(STRS.len())].to_string()),
            Ty::Any => {
                let c = self.concrete_any();
                self.lit(&c, need_local, depth)
            }
            Ty::Syn => Expr::Null,      // callers check availability first
            Ty::GNode => Expr::Call { func: "node".into(), args: vec![] },
            Ty::List(inner) => {
                let n = self.t.choose(4);
                Expr::List((0..n).map(|_| self.expr(inner, need_local, depth + 1)).collect())
            }
            Ty::Set(inner) => {
                let n = self.t.choose(4);
                Expr::Set((0..n).map(|_| self.expr(inner, need_local, depth + 1)).collect())
            }
        }
    }

    /// Candidates among variables (locals and globals) of the wanted type.
    fn var_candidates(&self, ty: &Ty, need_local: bool) -> Vec<String> {
        let mut out = vec![];
        for l in self.visible() {
            if &l.ty == ty && (l.local || !need_local) {
                out.push(l.name);
            }
        }
        for g in &self.globals {
            if &g.ty == ty && g.quant != Quant::Opt {
                out.push(g.name.clone());
            }
        }
        out
    }

    fn text_ok(&self, ty: &Ty) -> bool {
        // values that may be rendered to text: no graph nodes unless allowed; never sets that
        // contain syntax nodes (their element order is address-dependent)
        match ty {
            Ty::Any => false,
            Ty::GNode => self.cfg.gnode_text,
            Ty::List(i) => self.text_ok(i),
            Ty::Set(i) => **i != Ty::Syn && **i != Ty::GNode && self.text_ok(i),
            _ => true,
        }
    }

    /// A concrete type for an `Any` slot: plain literals and calls mixed.
    fn concrete_any(&mut self) -> Ty {
        let mut tys = vec![Ty::Null, Ty::Bool, Ty::Int, Ty::Str, Ty::GNode, Ty::List(Box::new(Ty::Int))];
        if !self.syn_sources(false).is_empty() {
            tys.push(Ty::Syn);
        }
        tys[self.t.choose(tys.len())].clone()
    }

    fn any_text_ty(&mut self) -> Ty {
        let mut tys = vec![Ty::Str, Ty::Int, Ty::Bool, Ty::Null, Ty::List(Box::new(Ty::Int)), Ty::Set(Box::new(Ty::Str))];
        if !self.syn_sources(false).is_empty() {
            tys.push(Ty::Syn);
            tys.push(Ty::List(Box::new(Ty::Syn)));
        }
        if self.cfg.gnode_text {
            tys.push(Ty::GNode);
        }
        tys[self.t.choose(tys.len())].clone()
    }

    pub fn expr(&mut self, ty: &Ty, need_local: bool, depth: usize) -> Expr {
        let deep = depth >= 3;
        // variables first
        let vars = self.var_candidates(ty, need_local);
        if !vars.is_empty() && self.t.chance(2, 5) {
            let name = vars[self.t.choose(vars.len())].clone();
            return Expr::Var { id: self.id(), name };
        }
        if !need_local {
            let reads = self.scoped_reads(ty);
            let p = if self.cfg.scoped_heavy { 3 } else { 1 };
            if !reads.is_empty() && self.t.chance(p, 5) {
                let e = reads[self.t.choose(reads.len())].clone();
                return self.finish_scoped(e);
            }
        }
        if deep {
            if *ty == Ty::Syn {
                if let Some((e, _)) = self.syn_expr(need_local) {
                    return e;
                }
            }
            return self.lit(ty, need_local, depth);
        }
        match ty {
            Ty::Any => {
                let c = self.concrete_any();
                self.expr(&c, need_local, depth)
            }
            Ty::Null => Expr::Null,
            Ty::Bool => match self.t.weighted(&[4, 3, 2, 2, 1, 1, 1]) {
                0 => self.lit(ty, need_local, depth),
                1 => {
                    let inner = [Ty::Int, Ty::Str, Ty::Bool][self.t.choose(3)].clone();
                    let a = self.expr(&inner, need_local, depth + 1);
                    let b = if self.t.chance(1, 6) { Expr::Null } else { self.expr(&inner, need_local, depth + 1) };
                    Expr::Call { func: "eq".into(), args: vec![a, b] }
                }
                2 => {
                    let a = self.expr(&Ty::Bool, need_local, depth + 1);
                    Expr::Call { func: "not".into(), args: vec![a] }
                }
                3 => {
                    let n = self.t.choose(4);
                    let mut args: Vec<Expr> = (0..n).map(|_| self.expr(&Ty::Bool, need_local, depth + 1)).collect();
                    // risky: a last argument that is not a boolean (every argument is checked,
                    // whatever the ones before it say)
                    if self.risky() {
                        args.push(if self.t.chance(1, 2) { Expr::Int(1, 0) } else { Expr::Str("x".into()) });
                        self.features.insert("non-boolean-argument-of-and-or");
                    }
                    Expr::Call { func: if self.t.chance(1, 2) { "and".into() } else { "or".into() }, args }
                }
                4 => {
                    let inner = self.any_text_ty();
                    let a = self.expr(&inner, need_local, depth + 1);
                    Expr::Call { func: "is-null".into(), args: vec![a] }
                }
                5 => {
                    let inner = [Ty::Int, Ty::Any][self.t.choose(2)].clone();
                    let a = self.expr(&Ty::List(Box::new(inner)), need_local, depth + 1);
                    Expr::Call { func: "is-empty".into(), args: vec![a] }
                }
                _ => {
                    // optional capture tested with is-null
                    let opts: Vec<String> = if self.in_shorthand_body { vec![] } else { self.caps.iter().filter(|c| c.quant == Quant::Opt).map(|c| c.name.clone()).collect() };
                    if opts.is_empty() {
                        self.lit(ty, need_local, depth)
                    } else {
                        let name = opts[self.t.choose(opts.len())].clone();
                        let e = Expr::Capture { id: self.id(), name };
                        self.mark_cap(&e);
                        Expr::Call { func: "is-null".into(), args: vec![e] }
                    }
                }
            },
            Ty::Int => match self.t.weighted(&[4, 2, 2, 3]) {
                0 if self.cfg.tick && self.t.chance(1, 2) => Expr::Call { func: "tick".into(), args: vec![] },
                0 => self.lit(ty, need_local, depth),
                1 => {
                    let n = self.t.choose(4);
                    let mut args: Vec<Expr> = (0..n).map(|_| self.expr(&Ty::Int, need_local, depth + 1)).collect();
                    // avoid accidental overflow: small literals only beside u32::MAX
                    if args.iter().filter(|a| matches!(a, Expr::Int(4294967295, _))).count() > 0 && !self.risky() {
                        args = vec![Expr::Int(1, 0), Expr::Int(2, 0)];
                    }
                    Expr::Call { func: "plus".into(), args }
                }
                2 => {
                    let inner = [Ty::Int, Ty::Str, Ty::Any, Ty::GNode][self.t.choose(4)].clone();
                    let a = self.expr(&Ty::List(Box::new(inner)), need_local, depth + 1);
                    Expr::Call { func: "length".into(), args: vec![a] }
                }
                _ => match self.syn_expr(need_local) {
                    Some((e, _)) => {
                        let f = ["named-child-count", "start-row", "start-column", "end-row", "end-column"][self.t.choose(5)];
                        Expr::Call { func: f.into(), args: vec![e] }
                    }
                    None => self.lit(ty, need_local, depth),
                },
            },
            Ty::Str => match self.t.weighted(&[4, 3, 2, 1, 2, 2]) {
                0 => self.lit(ty, need_local, depth),
                1 => match self.syn_expr(need_local) {
                    Some((e, _)) => Expr::Call { func: if self.t.chance(2, 3) { "source-text".into() } else { "node-type".into() }, args: vec![e] },
                    None => self.lit(ty, need_local, depth),
                },
                2 => {
                    // format with matching placeholders
                    let n = self.t.choose(3);
                    let mut fmt = String::new();
                    let mut args = vec![];
                    for i in 0..n {
                        fmt.push_str(["", "-", "{{", "}}", "é"][self.t.choose(5)]);
                        fmt.push_str("{}");
                        let _ = i;
                        let mut aty = self.any_text_ty();
                        if !self.text_ok(&aty) {
                            aty = Ty::Int;
                        }
                        args.push(self.expr(&aty, need_local, depth + 1));
                    }
                    fmt.push_str(["", "!", "}}"][self.t.choose(3)]);
                    let mut all = vec![Expr::Str(fmt)];
                    all.extend(args);
                    Expr::Call { func: "format".into(), args: all }
                }
                3 => {
                    let a = self.expr(&Ty::Str, need_local, depth + 1);
                    let re = ["a", "[ab]+", "/", "(a)(b)", "\\."][self.t.choose(5)];
                    let rep = ["", "_", "$1", "x"][self.t.choose(4)];
                    Expr::Call { func: "replace".into(), args: vec![a, Expr::Str(re.into()), Expr::Str(rep.into())] }
                }
                4 => {
                    let inner = [Ty::Str, Ty::Int][self.t.choose(2)].clone();
                    let a = self.expr(&Ty::List(Box::new(inner)), need_local, depth + 1);
                    let mut args = vec![a];
                    if self.t.chance(1, 2) {
                        args.push(Expr::Str([",", "", "/"][self.t.choose(3)].into()));
                    }
                    Expr::Call { func: "join".into(), args }
                }
                _ => {
                    if let Some(n) = self.regex_groups {
                        if !self.in_shorthand_body {
                            return Expr::RegexCap(self.t.choose(n + 1));
                        }
                    }
                    self.lit(ty, need_local, depth)
                }
            },
            Ty::Syn => match self.syn_expr(need_local) {
                Some((e, _)) => e,
                None => Expr::Null,
            },
            Ty::GNode => {
                // prefer existing graph nodes
                let vars = self.var_candidates(ty, need_local);
                if !vars.is_empty() && self.t.chance(3, 4) {
                    let name = vars[self.t.choose(vars.len())].clone();
                    return Expr::Var { id: self.id(), name };
                }
                if !need_local {
                    let reads = self.scoped_reads(ty);
                    if !reads.is_empty() && self.t.chance(3, 4) {
                        let e = reads[self.t.choose(reads.len())].clone();
                        return self.finish_scoped(e);
                    }
                }
                Expr::Call { func: "node".into(), args: vec![] }
            }
            Ty::List(inner) => match self.t.weighted(&[4, 3, 2, 2]) {
                0 => self.lit(ty, need_local, depth),
                1 => {
                    if **inner == Ty::Syn && !self.in_shorthand_body {
                        let lists: Vec<String> = self.caps.iter().filter(|c| c.quant.is_list()).map(|c| c.name.clone()).collect();
                        if !lists.is_empty() {
                            let name = lists[self.t.choose(lists.len())].clone();
                            let e = Expr::Capture { id: self.id(), name };
                            self.mark_cap(&e);
                            return e;
                        }
                    }
                    self.lit(ty, need_local, depth)
                }
                2 => {
                    let n = self.t.choose(3);
                    let args = (0..n).map(|_| self.expr(ty, need_local, depth + 1)).collect();
                    Expr::Call { func: "concat".into(), args }
                }
                _ => self.comprehension(inner, true, need_local, depth),
            },
            Ty::Set(inner) => match self.t.weighted(&[4, 2]) {
                0 => self.lit(ty, need_local, depth),
                _ => self.comprehension(inner, false, need_local, depth),
            },
        }
    }

    /// A list-valued, statically local expression with list quantifier (iterable by for /
    /// comprehensions): list captures, list literals, list comprehensions, `*`/`+` globals,
    /// immutable locals bound to those.  Returns the expression and its element type.
    fn iterable(&mut self, depth: usize) -> (Expr, Ty, &'static str) {
        let mut cands: Vec<(Expr, Ty, &'static str)> = vec![];
        if !self.in_shorthand_body {
            for c in &self.caps {
                if c.quant.is_list() {
                    cands.push((Expr::Capture { id: 0, name: c.name.clone() }, Ty::Syn, c.kinds));
                }
            }
        }
        for l in self.visible() {
            if let Ty::List(inner) = &l.ty {
                if l.local && !l.mutable && l.quant.is_list() && !l.binder {
                    cands.push((Expr::Var { id: 0, name: l.name.clone() }, (**inner).clone(), "*"));
                }
            }
        }
        for g in &self.globals {
            if g.quant.is_list() {
                if let Ty::List(inner) = &g.ty {
                    cands.push((Expr::Var { id: 0, name: g.name.clone() }, (**inner).clone(), "*"));
                }
            }
        }
        if !cands.is_empty() && self.t.chance(3, 4) {
            let (e, ty, k) = cands[self.t.choose(cands.len())].clone();
            self.mark_cap(&e);
            return (self.with_ids(e), ty, k);
        }
        let ety = [Ty::Int, Ty::Str, Ty::Bool][self.t.choose(3)].clone();
        let n = self.t.weighted(&[1, 4, 4, 2]);
        let items = (0..n).map(|_| self.expr(&ety, true, depth + 2)).collect();
        (Expr::List(items), ety, "*")
    }

    fn comprehension(&mut self, elem_ty: &Ty, list: bool, need_local: bool, depth: usize) -> Expr {
        let (src, src_elem, src_kinds) = self.iterable(depth);
        let var = self.fresh_name("e");
        let id = self.id();
        let var_id = self.id();
        self.frames.push(vec![Local { name: var.clone(), ty: src_elem.clone(), mutable: false, local: true, quant: Quant::Star, binder: true, fresh_node: false, kinds: src_kinds, alias_of: None }]);
        self.attr_used.push(BTreeMap::new());
        self.edges_here.push(vec![]);
        let elem = if &src_elem == elem_ty && self.t.chance(1, 2) {
            Expr::Var { id: self.id(), name: var.clone() }
        } else {
            self.expr(elem_ty, need_local, depth + 1)
        };
        self.frames.pop();
        self.attr_used.pop();
        self.edges_here.pop();
        self.features.insert("comprehension");
        if list {
            Expr::ListComp { id, elem: Box::new(elem), var_id, var, src: Box::new(src) }
        } else {
            Expr::SetComp { id, elem: Box::new(elem), var_id, var, src: Box::new(src) }
        }
    }

    fn value_ty(&mut self) -> Ty {
        let mut tys = vec![
            Ty::Str,
            Ty::Int,
            Ty::Bool,
            Ty::Null,
            Ty::GNode,
            Ty::List(Box::new(Ty::Int)),
            Ty::List(Box::new(Ty::Str)),
            Ty::Set(Box::new(Ty::Int)),
            Ty::Set(Box::new(Ty::Str)),
            Ty::List(Box::new(Ty::Any)),
            Ty::List(Box::new(Ty::GNode)),
            Ty::Set(Box::new(Ty::Any)),
        ];
        if !self.syn_sources(false).is_empty() {
            tys.push(Ty::Syn);
            tys.push(Ty::List(Box::new(Ty::Syn)));
            tys.push(Ty::Set(Box::new(Ty::Syn)));
        }
        let w: Vec<u32> = tys.iter().map(|t| if *t == Ty::Str || *t == Ty::Int { 4 } else { 2 }).collect();
        tys[self.t.weighted(&w)].clone()
    }

    /// Static (locality, quantifier) of an expression by the reference's rules.
    fn static_info(&self, e: &Expr) -> (bool, Quant) {
        match e {
            Expr::Null | Expr::True | Expr::False | Expr::Int(..) | Expr::Str(_) | Expr::RegexCap(_) => (true, Quant::One),
            Expr::List(xs) | Expr::Set(xs) => (xs.iter().all(|x| self.static_info(x).0), Quant::Star),
            Expr::ListComp { elem, var, src, .. } | Expr::SetComp { elem, var, src, .. } => {
                // the element is checked with the loop variable bound (local, quantifier of src)
                let _ = (var, src);
                (self.static_info_with(elem, var), Quant::Star)
            }
            Expr::Capture { name, .. } => (true, self.caps.iter().find(|c| &c.name == name).map(|c| c.quant).unwrap_or(Quant::One)),
            Expr::Var { name, .. } => {
                if let Some(g) = self.globals.iter().find(|g| &g.name == name) {
                    (true, g.quant)
                } else if let Some(l) = self.lookup(name) {
                    (l.local, l.quant)
                } else {
                    (true, Quant::One)
                }
            }
            Expr::Scoped { .. } => (false, Quant::One),
            Expr::Call { args, .. } => (args.iter().all(|x| self.static_info(x).0), Quant::One),
            Expr::Raw(_) => (true, Quant::One),
        }
    }

    fn static_info_with(&self, e: &Expr, bound: &str) -> bool {
        match e {
            Expr::Var { name, .. } if name == bound => true,
            Expr::List(xs) | Expr::Set(xs) => xs.iter().all(|x| self.static_info_with(x, bound)),
            Expr::Call { args, .. } => args.iter().all(|x| self.static_info_with(x, bound)),
            Expr::ListComp { elem, var, .. } | Expr::SetComp { elem, var, .. } => {
                // nested binder
                self.static_info_with(elem, bound) || self.static_info_with(elem, var)
            }
            other => self.static_info(other).0,
        }
    }

    // ---------------------------------------------------------------------------------------
    // statements

    fn push_frame(&mut self) {
        self.frames.push(vec![]);
        self.attr_used.push(BTreeMap::new());
        self.edges_here.push(vec![]);
    }
    fn pop_frame(&mut self) {
        self.frames.pop();
        self.attr_used.pop();
        self.edges_here.pop();
    }

    fn add_local(&mut self, name: &str, ty: Ty, mutable: bool, value: Option<&Expr>, fresh_node: bool) {
        let (local, quant) = match value {
            Some(v) => self.static_info(v),
            None => (true, Quant::One),
        };
        let (mut kinds, mut alias_of) = ("*", None);
        if let (Some(Expr::Capture { name: cap, .. }), false) = (value, mutable) {
            if let Some(c) = self.caps.iter().find(|c| &c.name == cap && c.quant == Quant::One) {
                kinds = c.kinds;
                alias_of = Some(c.name.clone());
            }
        }
        self.frames.last_mut().unwrap().push(Local { name: name.to_string(), ty, mutable, local: local && !mutable, quant, binder: false, fresh_node, kinds, alias_of });
    }

    fn block(&mut self, depth: usize) -> Vec<Stmt> {
        let n = if depth == 0 { 1 + self.t.choose(self.cfg.max_stmts + 3) } else { 1 + self.t.choose(3.min(self.cfg.max_stmts)) - if self.t.chance(1, 10) { 1 } else { 0 } };
        let mut out = vec![];
        for _ in 0..n {
            self.stmt_count += 1;
            if self.fault_pending.is_some() && self.stmt_count >= self.fault_at {
                if let Some(s) = self.fault_stmt() {
                    out.push(s);
                    continue;
                }
            }
            if let Some(s) = self.stmt(depth) {
                out.push(s);
            }
        }
        out
    }

    /// graph-node targets for attr / edge: (expr, key text, fresh in this frame)
    fn gnode_targets(&mut self) -> Vec<(Expr, String, bool)> {
        let mut out = vec![];
        let innermost: BTreeSet<String> = self.frames.last().unwrap().iter().map(|l| l.name.clone()).collect();
        for l in self.visible() {
            if l.ty == Ty::GNode {
                let fresh = l.fresh_node && innermost.contains(&l.name);
                out.push((Expr::Var { id: 0, name: l.name.clone() }, l.name.clone(), fresh));
            }
        }
        for g in &self.globals {
            if g.ty == Ty::GNode {
                out.push((Expr::Var { id: 0, name: g.name.clone() }, g.name.clone(), false));
            }
        }
        for e in self.scoped_reads(&Ty::GNode) {
            let key = crate::interp::expr_text(&e);
            // a node behind a scoped variable defined in this very stanza through the root-like
            // capture is fresh per match only if defined at the top level of this block
            let fresh = self.scoped.iter().any(|s| matches!(&s.coverage, Coverage::Exact { stanza, .. } if *stanza == self.stanza_idx) && key.ends_with(&format!(".{}", s.name)))
                && self.frames.len() == 1;
            out.push((e, key, fresh));
        }
        out
    }

    fn pick_target(&mut self, prefer_fresh: bool) -> Option<(Expr, String, bool)> {
        let targets = self.gnode_targets();
        if targets.is_empty() {
            return None;
        }
        let fresh: Vec<_> = targets.iter().filter(|t| t.2).cloned().collect();
        let pickfrom = if prefer_fresh && !fresh.is_empty() && !(self.cfg.collisions && self.t.chance(1, 2)) && !self.risky() { fresh } else { targets };
        let (e, k, f) = pickfrom[self.t.choose(pickfrom.len())].clone();
        let e = match e {
            Expr::Scoped { .. } => self.finish_scoped(e),
            other => self.with_ids(other),
        };
        Some((e, k, f))
    }

    fn attrs_for(&mut self, key: &str, fresh: bool, depth: usize) -> Vec<Attr> {
        let n = 1 + self.t.choose(3);
        let mut out = vec![];
        for _ in 0..n {
            // shorthand?
            if self.cfg.shorthands && !self.shorthands.is_empty() && self.t.chance(1, 4) {
                let sh = self.shorthands[self.t.choose(self.shorthands.len())].clone();
                let used = self.attr_used.last().unwrap().get(key).cloned().unwrap_or_default();
                if sh.expands_to.iter().all(|a| !used.contains(a)) && !out.iter().any(|a: &Attr| sh.expands_to.contains(&a.name) || a.name == sh.name) {
                    let v = self.expr(&sh.arg, false, depth + 1);
                    for a in &sh.expands_to {
                        self.attr_used.last_mut().unwrap().entry(key.to_string()).or_default().insert(a.clone());
                    }
                    self.features.insert("shorthand-use");
                    out.push(Attr { name: sh.name.clone(), value: Some(v) });
                    continue;
                }
            }
            let name = ATTR_NAMES[self.t.choose(ATTR_NAMES.len())].to_string();
            if self.shorthands.iter().any(|s| s.name == name) {
                continue;
            }
            let used = self.attr_used.last().unwrap().get(key).map(|u| u.contains(&name)).unwrap_or(false);
            if used || out.iter().any(|a: &Attr| a.name == name) {
                continue;
            }
            self.attr_used.last_mut().unwrap().entry(key.to_string()).or_default().insert(name.clone());
            let value = if self.t.chance(1, 8) {
                None
            } else if fresh || self.risky() {
                let ty = self.value_ty();
                Some(self.expr(&ty, false, depth + 1))
            } else {
                // a shared node: constants only, so that repeated assignment stays equal
                let ty = [Ty::Str, Ty::Int, Ty::Bool][self.t.choose(3)].clone();
                Some(self.lit(&ty, false, depth))
            };
            out.push(Attr { name, value });
        }
        if out.is_empty() {
            let name = self.fresh_name("at");
            out.push(Attr { name, value: Some(Expr::Int(1, 0)) });
        }
        out
    }

    fn stmt(&mut self, depth: usize) -> Option<Stmt> {
        let can_nest = depth < self.cfg.max_depth;
        let nest_w = if !can_nest {
            0
        } else if depth == 0 {
            3
        } else {
            2
        };
        let scoped_w = if self.cfg.scoped_heavy { 8 } else { 3 };
        let coll = if self.cfg.collisions { 3 } else { 1 };
        let weights = [
            4,                                      // 0 node
            4,                                      // 1 let
            2,                                      // 2 var
            2,                                      // 3 set
            5 * coll,                               // 4 attr node
            4 * coll,                               // 5 edge
            2 * coll,                               // 6 attr edge
            if self.cfg.prints { 1 } else { 0 },    // 7 print
            if self.cfg.scans { nest_w } else { 0 }, // 8 scan
            nest_w,                                 // 9 if
            nest_w,                                 // 10 for
            scoped_w,                               // 11 scoped definition
        ];
        match self.t.weighted(&weights) {
            0 => {
                // a node stored on an optional capture, guarded by `some`
                if !self.in_shorthand_body && self.loop_depth == 0 && can_nest && self.t.chance(1, 5) {
                    let opts: Vec<String> = self.caps.iter().filter(|c| c.quant == Quant::Opt).map(|c| c.name.clone()).collect();
                    if !opts.is_empty() {
                        let c = opts[self.t.choose(opts.len())].clone();
                        let test = Expr::Capture { id: self.id(), name: c.clone() };
                        self.mark_cap(&test);
                        let scope = Expr::Capture { id: self.id(), name: c };
                        let name = self.fresh_name("optn");
                        let node = Stmt::Node { id: self.id(), var: VarRef::Scoped { id: self.id(), scope, name } };
                        self.features.insert("node-on-optional-capture");
                        // risky: without the guard - fails whenever the capture is absent
                        if self.risky() {
                            self.features.insert("unguarded-definition-on-optional-capture");
                            return Some(node);
                        }
                        return Some(Stmt::If { id: self.id(), arms: vec![IfArm { id: self.id(), conds: vec![Cond::Some(self.id(), test)], body: vec![node] }] });
                    }
                }
                // node into a local or scoped variable
                if !self.in_shorthand_body && self.t.chance(1, 3) {
                    if let Some(s) = self.scoped_def(depth, true) {
                        return Some(s);
                    }
                }
                let name = self.local_name();
                let id = self.id();
                let vid = self.id();
                self.add_local(&name, Ty::GNode, false, None, true);
                self.features.insert("node");
                Some(Stmt::Node { id, var: VarRef::Plain { id: vid, name } })
            }
            1 | 2 => {
                let mutable = self.t.choose(1) == 1; // decided below
                let _ = mutable;
                let ty = self.value_ty();
                let value = self.expr(&ty, false, depth);
                let name = self.local_name();
                let id = self.id();
                let vid = self.id();
                let is_var = self.t.chance(1, 3);
                let fresh = matches!(&value, Expr::Call { func, .. } if func == "node");
                self.add_local(&name, ty, is_var, Some(&value), fresh);
                if is_var {
                    self.features.insert("mutable-local");
                    Some(Stmt::Var { id, var: VarRef::Plain { id: vid, name }, value })
                } else {
                    Some(Stmt::Let { id, var: VarRef::Plain { id: vid, name }, value })
                }
            }
            3 => {
                let muts: Vec<Local> = self.visible().into_iter().filter(|l| l.mutable).collect();
                if muts.is_empty() {
                    return None;
                }
                let l = muts[self.t.choose(muts.len())].clone();
                let value = self.expr(&l.ty, false, depth);
                let id = self.id();
                let vid = self.id();
                self.features.insert("set");
                if self.frames.last().unwrap().iter().all(|x| x.name != l.name) {
                    self.features.insert("set-outer-block");
                }
                Some(Stmt::Set { id, var: VarRef::Plain { id: vid, name: l.name }, value })
            }
            4 => {
                let (target, key, fresh) = self.pick_target(true)?;
                let attrs = self.attrs_for(&key, fresh, depth);
                self.features.insert("attr");
                Some(Stmt::AttrNode { id: self.id(), node: target, attrs })
            }
            5 => {
                let (a, _, _) = self.pick_target(false)?;
                let (b, _, _) = self.pick_target(false)?;
                self.edges_here.last_mut().unwrap().push((a.clone(), b.clone()));
                self.features.insert("edge");
                Some(Stmt::Edge { id: self.id(), src: a, dst: b })
            }
            6 => {
                // attribute on an edge created earlier in this frame (or, risky, anywhere)
                let here: Vec<(Expr, Expr)> = self.edges_here.iter().flatten().cloned().collect();
                if here.is_empty() {
                    return None;
                }
                let (a, b) = here[self.t.choose(here.len())].clone();
                let key = format!("{}->{}", crate::interp::expr_text(&a), crate::interp::expr_text(&b));
                let innermost = self.edges_here.last().unwrap().contains(&(a.clone(), b.clone()));
                let a = self.reid(a);
                let b = self.reid(b);
                let attrs = self.attrs_for(&key, false && innermost, depth);
                self.features.insert("edge-attr");
                Some(Stmt::AttrEdge { id: self.id(), src: a, dst: b, attrs })
            }
            7 => {
                let n = 1 + self.t.choose(3);
                let mut values = vec![];
                for _ in 0..n {
                    let mut ty = self.any_text_ty();
                    if !self.text_ok(&ty) {
                        ty = Ty::Str;
                    }
                    values.push(self.expr(&ty, false, depth + 1));
                }
                Some(Stmt::Print { id: self.id(), values })
            }
            8 => {
                // scans nested in loops or scans get short literal subjects (run time multiplies)
                let value = if self.loop_depth > 0 || self.t.chance(1, 2) {
                    Expr::Str(SCAN_SUBJECTS[self.t.choose(SCAN_SUBJECTS.len())].to_string())
                } else {
                    self.expr(&Ty::Str, true, depth + 1)
                };
                let id = self.id();
                let narms = 1 + self.t.choose(3);
                let mut arms = vec![];
                for _ in 0..narms {
                    let regex = REGEXES[self.t.choose(REGEXES.len())].to_string();
                    let groups = regex::Regex::new(&regex).map(|r| r.captures_len() - 1).unwrap_or(0);
                    let saved = self.regex_groups.replace(groups);
                    self.push_frame();
                    self.loop_depth += 1;
                    let mut body = self.block(depth + 1);
                    self.loop_depth -= 1;
                    self.pop_frame();
                    self.regex_groups = saved;
                    // half of the arms with groups record every group on a fresh node, so that the
                    // binding of `$1..$n` (absent groups included) shows in the graph
                    if groups > 0 && !self.in_shorthand_body && self.t.chance(1, 2) {
                        let g = self.fresh_name("grp");
                        let mut rec = vec![Stmt::Node { id: self.id(), var: VarRef::Plain { id: self.id(), name: g.clone() } }];
                        let attrs = (0..=groups).map(|k| Attr { name: format!("g{}", k), value: Some(Expr::RegexCap(k)) }).collect();
                        rec.push(Stmt::AttrNode { id: self.id(), node: Expr::Var { id: self.id(), name: g }, attrs });
                        rec.extend(body);
                        body = rec;
                        self.features.insert("scan-groups-recorded");
                    }
                    arms.push(ScanArm { regex, body });
                }
                self.features.insert("scan");
                Some(Stmt::Scan { id, value, arms })
            }
            9 => {
                let id = self.id();
                let narms = 1 + self.t.choose(3);
                let mut arms = vec![];
                for i in 0..narms {
                    let is_else = i > 0 && i == narms - 1 && self.t.chance(1, 2);
                    let arm_id = self.id();
                    let mut conds = vec![];
                    if !is_else {
                        let nc = 1 + self.t.weighted(&[5, 4, 2]);
                        for _ in 0..nc {
                            conds.push(self.cond(depth));
                        }
                    }
                    self.push_frame();
                    let body = self.block(depth + 1);
                    self.pop_frame();
                    arms.push(IfArm { id: arm_id, conds, body });
                }
                self.features.insert("if");
                Some(Stmt::If { id, arms })
            }
            10 => {
                let (value, elem, elem_kinds) = self.iterable(depth);
                let id = self.id();
                let var_id = self.id();
                let var = self.fresh_name("it");
                self.push_frame();
                self.frames.last_mut().unwrap().push(Local { name: var.clone(), ty: elem, mutable: false, local: true, quant: Quant::Star, binder: true, fresh_node: false, kinds: elem_kinds, alias_of: None });
                self.loop_depth += 1;
                let body = self.block(depth + 1);
                self.loop_depth -= 1;
                self.pop_frame();
                self.features.insert("for");
                Some(Stmt::For { id, var_id, var, value, body })
            }
            _ => self.scoped_def(depth, false),
        }
    }

    fn reid(&mut self, e: Expr) -> Expr {
        match e {
            Expr::Var { name, .. } => Expr::Var { id: self.id(), name },
            Expr::Capture { name, .. } => Expr::Capture { id: self.id(), name },
            Expr::Scoped { scope, name, .. } => {
                let scope = self.reid(*scope);
                Expr::Scoped { id: self.id(), scope: Box::new(scope), name }
            }
            other => other,
        }
    }

    fn cond(&mut self, depth: usize) -> Cond {
        // some / none on optional captures, optional globals, immutable locals bound to those
        let mut opts: Vec<Expr> = vec![];
        if !self.in_shorthand_body {
            for c in &self.caps {
                if c.quant == Quant::Opt {
                    opts.push(Expr::Capture { id: 0, name: c.name.clone() });
                }
            }
        }
        for g in &self.globals {
            if g.quant == Quant::Opt {
                opts.push(Expr::Var { id: 0, name: g.name.clone() });
            }
        }
        for l in self.visible() {
            if l.quant == Quant::Opt && l.local && !l.binder {
                opts.push(Expr::Var { id: 0, name: l.name.clone() });
            }
        }
        let id = self.id();
        if !opts.is_empty() && self.t.chance(1, 2) {
            let e = opts[self.t.choose(opts.len())].clone();
            self.mark_cap(&e);
            let e = self.with_ids(e);
            if self.t.chance(1, 2) {
                Cond::Some(id, e)
            } else {
                Cond::None(id, e)
            }
        } else {
            match self.t.weighted(&[6, 12, 3, 1]) {
                0 => Cond::Bool(id, if self.t.chance(3, 4) { Expr::True } else { Expr::False }),
                1 => Cond::Bool(id, self.expr(&Ty::Bool, true, depth + 1)),
                2 => {
                    // a clause with a side effect: every clause of a list is evaluated, also
                    // after a false one, so the node exists whichever arm is taken
                    self.features.insert("cond-node-call");
                    let probe = Expr::Call { func: "is-null".into(), args: vec![Expr::Call { func: "node".into(), args: vec![] }] };
                    Cond::Bool(id, if self.t.chance(1, 2) { Expr::Call { func: "not".into(), args: vec![probe] } } else { probe })
                }
                _ => {
                    // a bare clause that is not a boolean: the run fails when it is evaluated
                    if self.risky() || self.cfg.risk >= 4 && self.t.chance(1, 4) {
                        self.features.insert("cond-not-boolean");
                        Cond::Bool(id, Expr::Int(self.t.choose(3) as u32, 0))
                    } else {
                        Cond::Bool(id, Expr::True)
                    }
                }
            }
        }
    }

    /// `let @cap.name = value` / `node @cap.name` (and var/set on scoped variables outside the
    /// order-insensitive fragment).
    fn scoped_def(&mut self, depth: usize, node_stmt: bool) -> Option<Stmt> {
        if self.in_shorthand_body {
            return None;
        }
        // inside a loop body the same capture would be defined once per iteration
        if self.loop_depth > 0 && !self.risky() {
            return None;
        }
        let top = self.frames.len() == 1;
        let ones: Vec<CapInfo> = self.caps.iter().filter(|c| c.quant == Quant::One).cloned().collect();
        if ones.is_empty() {
            return None;
        }
        // set of an existing mutable scoped variable (strict-only programs)
        if !self.cfg.fragment && !node_stmt && self.t.chance(1, 6) {
            // risky: also a variable that is not mutable (a `let` or `node` one): the run fails
            let any = self.risky();
            if any {
                self.features.insert("set-on-immutable-scoped-variable");
            }
            let muts: Vec<ScopedInfo> = self.scoped.iter().filter(|s| s.mutable || any).cloned().collect();
            let reads: Vec<Expr> = muts.iter().flat_map(|s| self.scoped_reads(&s.ty).into_iter().filter(|e| matches!(e, Expr::Scoped { name, .. } if name == &s.name)).collect::<Vec<_>>()).collect();
            if !reads.is_empty() {
                let e = reads[self.t.choose(reads.len())].clone();
                if let Expr::Scoped { scope, name, .. } = self.finish_scoped(e) {
                    let ty = self.scoped.iter().find(|s| s.name == name).map(|s| s.ty.clone()).unwrap();
                    let value = self.expr(&ty, false, depth);
                    self.features.insert("scoped-set");
                    return Some(Stmt::Set { id: self.id(), var: VarRef::Scoped { id: self.id(), scope: *scope, name }, value });
                }
            }
        }
        let cap = ones[self.t.choose(ones.len())].clone();
        let entry_covers = self.current_covers();
        let covers_here = top && entry_covers.as_ref().map(|(c, _)| c == &cap.name).unwrap_or(false);
        // an inherited name defined on the module can get further definitions on other kinds of
        // nodes (several defining ancestors), as long as nobody has read it yet in the fragment
        if covers_here && !node_stmt {
            let kind = entry_covers.as_ref().unwrap().1;
            let cands: Vec<usize> = (0..self.scoped.len())
                .filter(|i| {
                    let si = &self.scoped[*i];
                    si.coverage == Coverage::ModuleInherited && kind != "module" && !si.extra_kinds.contains(&kind) && si.def_stanza < self.stanza_idx && !si.mutable && (!self.cfg.fragment || !self.read_names.contains(&si.name))
                })
                .collect();
            if !cands.is_empty() && self.t.chance(1, 2) {
                let i = cands[self.t.choose(cands.len())];
                let (name, ty) = (self.scoped[i].name.clone(), self.scoped[i].ty.clone());
                self.scoped[i].extra_kinds.push(kind);
                self.defined_here.insert(name.clone());
                let cap_expr = Expr::Capture { id: self.id(), name: cap.name.clone() };
                let value = self.scoped_value(&ty, &name, &cap, depth);
                self.features.insert("inherited-name-defined-on-several-kinds");
                self.features.insert("scoped-def");
                return Some(Stmt::Let { id: self.id(), var: VarRef::Scoped { id: self.id(), scope: cap_expr, name }, value });
            }
        }
        // coverage this definition gives
        let coverage = if covers_here {
            let kind = entry_covers.unwrap().1;
            if kind == "module" && self.t.chance(1, 2) {
                Coverage::ModuleInherited
            } else {
                Coverage::Kind(kind)
            }
        } else if top {
            Coverage::Exact { stanza: self.stanza_idx, cap: cap.name.clone() }
        } else {
            // conditional definition: not reliably readable
            Coverage::Exact { stanza: usize::MAX, cap: cap.name.clone() }
        };
        // name: fresh, or (risky) an existing one
        let reuse = !self.scoped.is_empty() && self.risky();
        let reuse_name = if reuse {
            let i = self.t.choose(self.scoped.len());
            let n = self.scoped[i].name.clone();
            // fragment: every definition of an inherited name precedes every reader
            if self.cfg.fragment && self.inherited.contains(&n) {
                None
            } else {
                Some(n)
            }
        } else {
            None
        };
        let reuse = reuse_name.is_some();
        let name = if let Some(n) = reuse_name {
            n
        } else {
            let base = ["v", "ref", "val", "something"][self.t.choose(4)];
            self.fresh_name(base)
        };
        // a link to another syntax node of this match (`let @a.ref = @b`)
        let others: Vec<CapInfo> = ones.iter().filter(|c| c.name != cap.name).cloned().collect();
        let link = !node_stmt && !others.is_empty() && self.t.chance(if self.cfg.scoped_heavy { 1 } else { 0 }, 4);
        let ty = if node_stmt {
            Ty::GNode
        } else if link {
            Ty::Syn
        } else if self.cfg.scoped_heavy && self.t.chance(1, 2) {
            Ty::Str
        } else {
            self.value_ty()
        };
        let mutable = !node_stmt && !self.cfg.fragment && self.t.chance(1, 4);
        // the scope may be written through an immutable local that holds the capture
        let aliases: Vec<String> = self.visible().into_iter().filter(|l| l.alias_of.as_deref() == Some(cap.name.as_str())).map(|l| l.name).collect();
        // ... or through a syntax node stored in another scoped variable (`node @a.ref.n`): which
        // node that is, is not tracked, so the new variable is never read back
        let links: Vec<Expr> = if !reuse && top && self.t.chance(if node_stmt { 2 } else { 1 }, 4) { self.scoped_reads(&Ty::Syn) } else { vec![] };
        let through_link = !links.is_empty();
        let coverage = if through_link { Coverage::Exact { stanza: usize::MAX, cap: cap.name.clone() } } else { coverage };
        let cap_expr = if through_link {
            self.features.insert("scoped-def-through-stored-node");
            let e = links[self.t.choose(links.len())].clone();
            self.finish_scoped(e)
        } else if !aliases.is_empty() && self.t.chance(1, 2) {
            self.features.insert("scoped-def-through-local");
            let name = aliases[self.t.choose(aliases.len())].clone();
            Expr::Var { id: self.id(), name }
        } else {
            Expr::Capture { id: self.id(), name: cap.name.clone() }
        };
        let id = self.id();
        let vid = self.id();
        let mut syn_kinds = "*";
        let stmt = if node_stmt {
            self.features.insert("node");
            Stmt::Node { id, var: VarRef::Scoped { id: vid, scope: cap_expr, name: name.clone() } }
        } else {
            let value = if link {
                let other = others[self.t.choose(others.len())].clone();
                syn_kinds = other.kinds;
                self.features.insert("scoped-link");
                Expr::Capture { id: self.id(), name: other.name }
            } else {
                self.scoped_value(&ty, &name, &cap, depth)
            };
            if mutable {
                Stmt::Var { id, var: VarRef::Scoped { id: vid, scope: cap_expr, name: name.clone() }, value }
            } else {
                Stmt::Let { id, var: VarRef::Scoped { id: vid, scope: cap_expr, name: name.clone() }, value }
            }
        };
        if coverage == Coverage::ModuleInherited {
            self.inherited.insert(name.clone());
        }
        if !reuse {
            self.scoped.push(ScopedInfo { name, ty, mutable, coverage, def_stanza: self.stanza_idx, syn_kinds, extra_kinds: vec![] });
        }
        self.features.insert("scoped-def");
        Some(stmt)
    }

    /// The value stored in a scoped variable: for strings mostly one that identifies the
    /// definition site and the node (kind, row, column), so that reads from a wrong node show.
    fn scoped_value(&mut self, ty: &Ty, name: &str, cap: &CapInfo, depth: usize) -> Expr {
        if *ty == Ty::Str && self.t.chance(2, 3) {
            let c = |g: &mut Self| Expr::Capture { id: g.id(), name: cap.name.clone() };
            let a = c(self);
            let b = c(self);
            let d = c(self);
            return Expr::Call {
                func: "format".into(),
                args: vec![
                    Expr::Str(format!("{}@{}:{{}}:{{}}:{{}}", name, self.stanza_idx)),
                    Expr::Call { func: "node-type".into(), args: vec![a] },
                    Expr::Call { func: "start-row".into(), args: vec![b] },
                    Expr::Call { func: "start-column".into(), args: vec![d] },
                ],
            };
        }
        self.expr(ty, false, depth)
    }

    fn current_covers(&self) -> Option<(String, &'static str)> {
        self.current_entry_covers.clone()
    }

    // ---------------------------------------------------------------------------------------
    // faults

    fn fault_stmt(&mut self) -> Option<Stmt> {
        let kind = self.fault_pending.take()?;
        self.fault_done = Some(kind);
        let target = self.pick_target(false).map(|t| t.0).unwrap_or(Expr::Call { func: "node".into(), args: vec![] });
        let id = self.id();
        self.fault_id = Some(id);
        // sometimes the fault sits behind a test on the matched node's position, so that it first
        // fires in a later match of the stanza
        let guard: Option<Expr> = if !self.in_shorthand_body && self.t.chance(1, 3) {
            let ones: Vec<String> = self.caps.iter().filter(|c| c.quant == Quant::One).map(|c| c.name.clone()).collect();
            if ones.is_empty() {
                None
            } else {
                let name = ones[self.t.choose(ones.len())].clone();
                let cap = Expr::Capture { id: self.id(), name };
                self.mark_cap(&cap);
                let row = Expr::Call { func: "start-row".into(), args: vec![cap] };
                let r = self.t.weighted(&[4, 1, 1]) as u32;
                self.features.insert("fault-behind-position-test");
                Some(Expr::Call { func: "not".into(), args: vec![Expr::Call { func: "eq".into(), args: vec![row, Expr::Int(r, 0)] }] })
            }
        } else {
            None
        };
        let stmt = self.fault_stmt_of(kind, id, target);
        Some(match guard {
            Some(g) => Stmt::If { id: self.id(), arms: vec![IfArm { id: self.id(), conds: vec![Cond::Bool(self.id(), g)], body: vec![stmt] }] },
            None => stmt,
        })
    }

    fn fault_stmt_of(&mut self, kind: &'static str, id: Id, target: Expr) -> Stmt {
        match kind {
            "type-plus" => Stmt::AttrNode { id, node: target, attrs: vec![Attr { name: "f".into(), value: Some(Expr::Call { func: "plus".into(), args: vec![Expr::Str("a".into()), Expr::Int(1, 0)] }) }] },
            "type-not" => Stmt::Let { id, var: VarRef::Plain { id: self.id(), name: self.fresh_name("flt") }, value: Expr::Call { func: "not".into(), args: vec![Expr::Int(1, 0)] } },
            "unknown-function" => {
                // some names share their first word with a standard function
                let func = ["no-such-function", "start-nothing", "is-nothing", "named-nothing", "node-nothing"][self.t.choose(5)].to_string();
                Stmt::Let { id, var: VarRef::Plain { id: self.id(), name: self.fresh_name("flt") }, value: Expr::Call { func, args: vec![Expr::Int(1, 0)] } }
            }
            "edge-non-node" => Stmt::Edge { id, src: target, dst: Expr::Int(3, 0) },
            "attr-non-node" => Stmt::AttrNode { id, node: Expr::Str("s".into()), attrs: vec![Attr { name: "f".into(), value: Some(Expr::Int(1, 0)) }] },
            "attr-conflict" | "edge-attr-conflict" => {
                let on_edge = kind == "edge-attr-conflict";
                let v = self.fresh_name("flt");
                // one statement that holds: node, [edge,] attribute, (another attribute in between,) conflicting attribute
                let vid = self.id();
                let node = Stmt::Node { id: self.id(), var: VarRef::Plain { id: vid, name: v.clone() } };
                let var = |g: &mut Self| Expr::Var { id: g.id(), name: v.clone() };
                let mk = |g: &mut Self, name: &str, value: u32| {
                    let attrs = vec![Attr { name: name.into(), value: Some(Expr::Int(value, 0)) }];
                    if on_edge {
                        Stmt::AttrEdge { id: g.id(), src: var(g), dst: var(g), attrs }
                    } else {
                        Stmt::AttrNode { id: g.id(), node: var(g), attrs }
                    }
                };
                let mut body = vec![node];
                if on_edge {
                    body.push(Stmt::Edge { id: self.id(), src: var(self), dst: var(self) });
                }
                // the two values differ; either may be #null, a string, a boolean or a list
                let pairs: [(Expr, Expr); 7] = [
                    (Expr::Int(1, 0), Expr::Int(2, 0)),
                    (Expr::Null, Expr::Int(1, 0)),
                    (Expr::Int(1, 0), Expr::Null),
                    (Expr::Str("a".into()), Expr::Str("b".into())),
                    (Expr::True, Expr::False),
                    (Expr::List(vec![Expr::Int(1, 0)]), Expr::List(vec![Expr::Int(1, 0), Expr::Int(2, 0)])),
                    (Expr::Null, Expr::Str("".into())),
                ];
                let (v1, v2) = pairs[self.t.weighted(&[4, 2, 2, 1, 1, 1, 1])].clone();
                let mut a1 = mk(self, "f", 1);
                let mut a2 = mk(self, "f", 2);
                for (st, v) in [(&mut a1, v1), (&mut a2, v2)] {
                    if let Stmt::AttrNode { attrs, .. } | Stmt::AttrEdge { attrs, .. } = st {
                        attrs[0].value = Some(v);
                    }
                }
                if self.t.chance(1, 4) {
                    // both assignments in one statement: `attr (n) f = 1, g = 0, f = 2`
                    let mut first = a1;
                    let second_attr = match &a2 {
                        Stmt::AttrNode { attrs, .. } | Stmt::AttrEdge { attrs, .. } => attrs[0].clone(),
                        _ => unreachable!(),
                    };
                    if let Stmt::AttrNode { attrs, .. } | Stmt::AttrEdge { attrs, .. } = &mut first {
                        if self.t.chance(1, 2) {
                            attrs.push(Attr { name: "g".into(), value: Some(Expr::Int(0, 0)) });
                        }
                        attrs.push(second_attr);
                    }
                    self.features.insert("conflict-within-one-statement");
                    self.fault_pair = Some((first.id(), first.id()));
                    body.push(first);
                } else {
                    self.fault_pair = Some((a1.id(), a2.id()));
                    body.push(a1);
                    for _ in 0..self.t.choose(3) {
                        let other = ["g", "h"][self.t.choose(2)];
                        body.push(mk(self, other, 0));
                    }
                    body.push(a2);
                }
                Stmt::If { id, arms: vec![IfArm { id: self.id(), conds: vec![Cond::Bool(self.id(), Expr::True)], body }] }
            }
            "undefined-edge" => {
                // towards a fresh node, or towards another node that exists already
                let existing = if self.t.chance(1, 2) { self.pick_target(false).map(|t| t.0) } else { None };
                let other = existing.unwrap_or(Expr::Call { func: "node".into(), args: vec![] });
                Stmt::AttrEdge { id, src: target, dst: other, attrs: vec![Attr { name: "f".into(), value: Some(Expr::Int(1, 0)) }] }
            }
            "undefined-scoped" => match self.syn_expr(false) {
                Some((scope, _)) => Stmt::Let { id, var: VarRef::Plain { id: self.id(), name: self.fresh_name("flt") }, value: Expr::Scoped { id: self.id(), scope: Box::new(scope), name: "never_defined".into() } },
                None => Stmt::Let { id, var: VarRef::Plain { id: self.id(), name: self.fresh_name("flt") }, value: Expr::Call { func: "not".into(), args: vec![Expr::Int(1, 0)] } },
            },
            "duplicate-scoped" => match self.syn_expr(false) {
                Some((scope, _)) => {
                    let n = self.fresh_name("dup");
                    // either definition may name the node directly or through a local holding it
                    let mut body = vec![];
                    let mut scopes = vec![];
                    for _ in 0..2 {
                        let sc = self.reid(scope.clone());
                        if self.t.chance(1, 3) {
                            let al = self.fresh_name("al");
                            body.push(Stmt::Let { id: self.id(), var: VarRef::Plain { id: self.id(), name: al.clone() }, value: sc });
                            scopes.push(Expr::Var { id: self.id(), name: al });
                            self.features.insert("duplicate-through-local");
                        } else {
                            scopes.push(sc);
                        }
                    }
                    let scope2 = scopes.pop().unwrap();
                    let scope1 = scopes.pop().unwrap();
                    let a = Stmt::Let { id: self.id(), var: VarRef::Scoped { id: self.id(), scope: scope1, name: n.clone() }, value: Expr::Int(1, 0) };
                    let b = Stmt::Let { id: self.id(), var: VarRef::Scoped { id: self.id(), scope: scope2, name: n }, value: Expr::Int(self.t.choose(2) as u32 + 1, 0) };
                    self.fault_pair = Some((a.id(), b.id()));
                    body.push(a);
                    if self.t.chance(3, 4) {
                        // the same name on another node in between (the two conflicting
                        // definitions are then not adjacent among the definitions of the name)
                        if let Some((other_scope, _)) = self.syn_expr(false) {
                            if crate::interp::expr_text(&other_scope) != crate::interp::expr_text(&scope) {
                                let n2 = match &body[body.len() - 1] {
                                    Stmt::Let { var: VarRef::Scoped { name, .. }, .. } => name.clone(),
                                    _ => String::new(),
                                };
                                if !n2.is_empty() {
                                    body.push(Stmt::Let { id: self.id(), var: VarRef::Scoped { id: self.id(), scope: other_scope, name: n2 }, value: Expr::Int(3, 0) });
                                    self.features.insert("duplicate-with-another-node-in-between");
                                    // the other expression may well evaluate to the same node:
                                    // which two definitions clash first is then not known here
                                    self.fault_pair = None;
                                }
                            }
                        }
                    }
                    if self.t.chance(1, 2) {
                        // an unrelated definition on the same node in between
                        let scope3 = self.reid(scope);
                        let other = self.fresh_name("dupmid");
                        body.push(Stmt::Let { id: self.id(), var: VarRef::Scoped { id: self.id(), scope: scope3, name: other }, value: Expr::Int(0, 0) });
                    }
                    body.push(b);
                    Stmt::If { id, arms: vec![IfArm { id: self.id(), conds: vec![Cond::Bool(self.id(), Expr::True)], body }] }
                }
                None => Stmt::Edge { id, src: target, dst: Expr::Int(3, 0) },
            },
            "scan-non-string" => Stmt::Scan { id, value: Expr::Int(5, 0), arms: vec![ScanArm { regex: "a".into(), body: vec![] }] },
            "for-non-list" => Stmt::For { id, var_id: self.id(), var: self.fresh_name("it"), value: Expr::Set(vec![Expr::Int(1, 0)]), body: vec![] },
            "regex-capture" => {
                if self.t.chance(1, 2) {
                    Stmt::Scan {
                        id,
                        value: Expr::Str("ab".into()),
                        arms: vec![ScanArm { regex: "a".into(), body: vec![Stmt::Print { id: self.id(), values: vec![Expr::RegexCap(3)] }] }],
                    }
                } else {
                    // an arm with more groups matches first; a later match of an arm with fewer
                    // groups names a group only the first arm has
                    let flt = self.fresh_name("flt");
                    Stmt::Scan {
                        id,
                        value: Expr::Str("ab1".into()),
                        arms: vec![
                            ScanArm { regex: "([a-z])([a-z])".into(), body: vec![] },
                            ScanArm { regex: "[0-9]".into(), body: vec![Stmt::Let { id: self.id(), var: VarRef::Plain { id: self.id(), name: flt }, value: Expr::RegexCap(2) }] },
                        ],
                    }
                }
            }
            "format-args" => Stmt::Let { id, var: VarRef::Plain { id: self.id(), name: self.fresh_name("flt") }, value: Expr::Call { func: "format".into(), args: vec![Expr::Str("{} {}".into()), Expr::Int(1, 0)] } },
            "type-in-list" => {
                // an unused variable whose list mixes a plain element with a failing call
                let bad = Expr::Call { func: "plus".into(), args: vec![Expr::Str("a".into()), Expr::Int(1, 0)] };
                let value = match self.t.choose(4) {
                    0 => Expr::List(vec![Expr::Int(1, 0), bad]),
                    1 => Expr::List(vec![bad, Expr::Str("tag".into())]),
                    2 => Expr::Set(vec![Expr::Null, bad]),
                    _ => Expr::List(vec![Expr::List(vec![Expr::Int(1, 0)]), Expr::List(vec![Expr::True, bad])]),
                };
                Stmt::Let { id, var: VarRef::Plain { id: self.id(), name: self.fresh_name("flt") }, value }
            }
            "shorthand-free-variable" => {
                // a shorthand whose body names a local of the block that uses it: not visible there
                let locals: Vec<String> = self.visible().into_iter().map(|l| l.name).collect();
                if locals.is_empty() || self.in_shorthand_body {
                    Stmt::Let { id, var: VarRef::Plain { id: self.id(), name: self.fresh_name("flt") }, value: Expr::Call { func: "not".into(), args: vec![Expr::Int(1, 0)] } }
                } else {
                    let free = locals[self.t.choose(locals.len())].clone();
                    let sh = self.fresh_name("flt_sh");
                    let item = Item::Shorthand {
                        id: self.id(),
                        name: sh.clone(),
                        var_id: self.id(),
                        var: "flt_p".into(),
                        attrs: vec![Attr { name: "flt_a".into(), value: Some(Expr::Var { id: self.id(), name: "flt_p".into() }) }, Attr { name: "flt_b".into(), value: Some(Expr::Var { id: self.id(), name: free }) }],
                    };
                    self.extra_items.push(item);
                    Stmt::AttrNode { id, node: target, attrs: vec![Attr { name: sh, value: Some(Expr::Int(1, 0)) }] }
                }
            }
            // the failing value is bound to a local, passed on through two more locals and used in
            // an attribute: the statement that fails is the first `let`
            "type-through-aliases" => {
                let (f1, f2, f3) = (self.fresh_name("flt"), self.fresh_name("flt"), self.fresh_name("flt"));
                let bad = Stmt::Let { id: self.id(), var: VarRef::Plain { id: self.id(), name: f1.clone() }, value: Expr::Call { func: "plus".into(), args: vec![Expr::Str("a".into()), Expr::Int(1, 0)] } };
                self.fault_pair = Some((bad.id(), bad.id()));
                let a1 = Stmt::Let { id: self.id(), var: VarRef::Plain { id: self.id(), name: f2.clone() }, value: Expr::Var { id: self.id(), name: f1 } };
                let a2 = Stmt::Let { id: self.id(), var: VarRef::Plain { id: self.id(), name: f3.clone() }, value: Expr::List(vec![Expr::Var { id: self.id(), name: f2 }]) };
                let use_it = Stmt::AttrNode { id: self.id(), node: target, attrs: vec![Attr { name: "f".into(), value: Some(Expr::Var { id: self.id(), name: f3 }) }] };
                Stmt::If { id, arms: vec![IfArm { id: self.id(), conds: vec![Cond::Bool(self.id(), Expr::True)], body: vec![bad, a1, a2, use_it] }] }
            }
            // a scoped variable defined on a local that holds #null instead of a syntax node
            "scope-is-null" => {
                let l = self.fresh_name("flt");
                let holder = Stmt::Let { id: self.id(), var: VarRef::Plain { id: self.id(), name: l.clone() }, value: Expr::Null };
                let scope = Expr::Var { id: self.id(), name: l };
                let name = self.fresh_name("onnull");
                let def = if self.t.chance(1, 2) { Stmt::Let { id: self.id(), var: VarRef::Scoped { id: self.id(), scope, name }, value: Expr::Int(1, 0) } } else { Stmt::Node { id: self.id(), var: VarRef::Scoped { id: self.id(), scope, name } } };
                Stmt::If { id, arms: vec![IfArm { id: self.id(), conds: vec![Cond::Bool(self.id(), Expr::True)], body: vec![holder, def] }] }
            }
            // the failing value sits in a print argument: lazy evaluation reaches it last
            "type-in-print" => Stmt::Print { id, values: vec![Expr::Str("p".into()), Expr::Call { func: "plus".into(), args: vec![Expr::Str("a".into()), Expr::Int(1, 0)] }] },
            "overflow" => Stmt::Let { id, var: VarRef::Plain { id: self.id(), name: self.fresh_name("flt") }, value: Expr::Call { func: "plus".into(), args: vec![Expr::Int(4294967295, 0), Expr::Int(1, 0)] } },
            _ => Stmt::Let { id, var: VarRef::Plain { id: self.id(), name: self.fresh_name("flt") }, value: Expr::Call { func: "not".into(), args: vec![Expr::Int(1, 0)] } },
        }
    }
}

impl<'t, 'b> G<'t, 'b> {
    /// Three stanzas on the same kind of node: one stores a graph node on it, two others give that
    /// graph node the same attribute - equal values are fine, different ones (one of them may be
    /// `#null`) make the run fail in every stanza order.
    fn attr_idiom(&mut self) -> Vec<Stanza> {
        const KINDS: &[&str] = &["(identifier) @", "(call) @", "(module) @", "(expression_statement) @", "(pass_statement) @"];
        let kind = KINDS[self.t.choose(KINDS.len())];
        let name = self.fresh_name("an");
        // `1` and "1" print alike and are different values
        let values = [Expr::Null, Expr::Str("v".into()), Expr::Int(1, 0), Expr::True, Expr::Str("".into()), Expr::Str("1".into())];
        let mk = |g: &mut Self, c: &str, body: Vec<Stmt>| Stanza { id: g.id(), query: format!("{}{}", kind, c), captures: vec![Cap { name: c.to_string(), quant: Quant::One }], body, pool: usize::MAX };
        let sc = |g: &mut Self, c: &str, n: &str| {
            let scope = Box::new(Expr::Capture { id: g.id(), name: c.to_string() });
            Expr::Scoped { id: g.id(), scope, name: n.to_string() }
        };
        let def = Stmt::Node { id: self.id(), var: VarRef::Scoped { id: self.id(), scope: Expr::Capture { id: self.id(), name: "x".into() }, name: name.clone() } };
        let mut out = vec![mk(self, "x", vec![def])];
        let first = self.t.choose(values.len());
        for (i, c) in ["y", "z"].iter().enumerate() {
            // mostly the same value twice
            let v = if i == 1 && self.t.chance(1, 2) { values[first].clone() } else { values[self.t.choose(values.len())].clone() };
            let v = if i == 0 { values[first].clone() } else { v };
            let node = sc(self, c, &name);
            let st = Stmt::AttrNode { id: self.id(), node, attrs: vec![Attr { name: "shared".into(), value: Some(v) }] };
            out.push(mk(self, c, vec![st]));
        }
        // a plain value next to the node, and stanzas that hand it to an attribute shorthand or
        // read it inside a set comprehension: whichever stanza comes first, these are evaluated
        // only after every stanza has run
        if self.cfg.shorthands && self.t.chance(1, 2) {
            let pv = self.fresh_name("pv");
            let def_v = Stmt::Let { id: self.id(), var: VarRef::Scoped { id: self.id(), scope: Expr::Capture { id: self.id(), name: "v".into() }, name: pv.clone() }, value: Expr::Str("plain".into()) };
            out.push(mk(self, "v", vec![def_v]));
            if self.t.chance(1, 2) {
                let shn = self.fresh_name("idsh");
                let item = Item::Shorthand { id: self.id(), name: shn.clone(), var_id: self.id(), var: "idsh_p".into(), attrs: vec![Attr { name: format!("{}_a", shn), value: Some(Expr::Var { id: self.id(), name: "idsh_p".into() }) }] };
                self.extra_items.push(item);
                let node = sc(self, "w", &name);
                let arg = sc(self, "w", &pv);
                let st = Stmt::AttrNode { id: self.id(), node, attrs: vec![Attr { name: shn, value: Some(arg) }] };
                out.push(mk(self, "w", vec![st]));
                self.features.insert("shorthand-argument-read-from-another-stanza");
            } else {
                let node = sc(self, "w", &name);
                let elem = Expr::Scoped { id: self.id(), scope: Box::new(Expr::Var { id: self.id(), name: "sz".into() }), name: pv.clone() };
                let comp = Expr::SetComp { id: self.id(), elem: Box::new(elem), var_id: self.id(), var: "sz".into(), src: Box::new(Expr::List(vec![Expr::Capture { id: self.id(), name: "w".into() }])) };
                let st = Stmt::AttrNode { id: self.id(), node, attrs: vec![Attr { name: "from_set".into(), value: Some(comp) }] };
                out.push(mk(self, "w", vec![st]));
                self.features.insert("set-comprehension-element-read-from-another-stanza");
            }
        }
        // a shorthand whose expansion mentions `$0`/`$1`, used inside a scan arm: the expansion
        // sees the captures of the arm it is used in
        if self.cfg.shorthands && self.cfg.scans && self.t.chance(1, 3) {
            let shn = self.fresh_name("rxsh");
            let item = Item::Shorthand {
                id: self.id(),
                name: shn.clone(),
                var_id: self.id(),
                var: "rxsh_p".into(),
                attrs: vec![
                    Attr { name: format!("{}_a", shn), value: Some(Expr::Var { id: self.id(), name: "rxsh_p".into() }) },
                    Attr { name: format!("{}_g", shn), value: Some(Expr::RegexCap(1)) },
                ],
            };
            self.extra_items.push(item);
            let node = sc(self, "r", &name);
            let use_it = Stmt::AttrNode { id: self.id(), node, attrs: vec![Attr { name: shn, value: Some(Expr::RegexCap(0)) }] };
            let scan = Stmt::Scan { id: self.id(), value: Expr::Str("ab".into()), arms: vec![ScanArm { regex: "(a)(b)?".into(), body: vec![use_it] }] };
            out.push(mk(self, "r", vec![scan]));
            self.features.insert("shorthand-with-regex-captures-used-in-a-scan-arm");
        }
        // a fourth stanza holds the stored node in a local and prints it (or a call on it)
        if self.cfg.prints && self.t.chance(1, 2) {
            let read = sc(self, "p", &name);
            let held = self.fresh_name("held");
            let shown = if self.t.chance(1, 2) { Expr::Var { id: self.id(), name: held.clone() } } else { Expr::Call { func: "is-null".into(), args: vec![Expr::Var { id: self.id(), name: held.clone() }] } };
            let body = vec![Stmt::Let { id: self.id(), var: VarRef::Plain { id: self.id(), name: held }, value: read }, Stmt::Print { id: self.id(), values: vec![shown] }];
            out.push(mk(self, "p", body));
            self.features.insert("print-of-a-local-holding-a-scoped-value");
        }
        // a set comprehension over a list that holds one value twice, whose element makes a
        // graph node: one node per element of the list, not per distinct value
        if self.t.chance(1, 3) {
            let node = sc(self, "q", &name);
            let src = Expr::List(vec![Expr::Str("a".into()), Expr::Str("b".into()), Expr::Str("a".into())]);
            let comp = Expr::SetComp { id: self.id(), elem: Box::new(Expr::Call { func: "node".into(), args: vec![] }), var_id: self.id(), var: "dz".into(), src: Box::new(src) };
            let st = Stmt::AttrNode { id: self.id(), node, attrs: vec![Attr { name: "made".into(), value: Some(comp) }] };
            out.push(mk(self, "q", vec![st]));
            self.features.insert("set-comprehension-with-an-effect-over-repeated-values");
        }
        self.features.insert("one-attribute-from-two-stanzas");
        out
    }

    /// Three stanzas: graph nodes stored on outer syntax nodes under inherited names, an edge
    /// between them created from an inner node (reached through inheritance), and an attribute
    /// put on that edge from the outer node again.  Lazy evaluation visits the outer node's
    /// matches before the inner ones; strict runs the stanzas in file order.
    fn edge_idiom(&mut self) -> Vec<Stanza> {
        const OUTER: &[(&str, &str)] = &[("(module) @m", "m"), ("(function_definition) @m", "m"), ("(class_definition) @m", "m")];
        const INNER: &[(&str, &str)] = &[("(pass_statement) @p", "p"), ("(identifier) @p", "p"), ("(call function: (_) @p)", "p"), ("(expression_statement) @p", "p"), ("(return_statement) @p", "p")];
        let (a, b) = (self.fresh_name("ea"), self.fresh_name("eb"));
        self.inherited.insert(a.clone());
        self.inherited.insert(b.clone());
        let (opat, ocap) = OUTER[self.t.weighted(&[4, 1, 1])];
        let (ipat, icap) = INNER[self.t.choose(INNER.len())];
        let cap = |g: &mut Self, c: &str| Expr::Capture { id: g.id(), name: c.to_string() };
        let sc = |g: &mut Self, c: &str, n: &str| {
            let scope = Box::new(Expr::Capture { id: g.id(), name: c.to_string() });
            Expr::Scoped { id: g.id(), scope, name: n.to_string() }
        };
        let mk = |g: &mut Self, query: &str, c: &str, body: Vec<Stmt>| Stanza { id: g.id(), query: query.to_string(), captures: vec![Cap { name: c.to_string(), quant: Quant::One }], body, pool: usize::MAX };
        let n1 = Stmt::Node { id: self.id(), var: VarRef::Scoped { id: self.id(), scope: cap(self, ocap), name: a.clone() } };
        let n2 = Stmt::Node { id: self.id(), var: VarRef::Scoped { id: self.id(), scope: cap(self, ocap), name: b.clone() } };
        let nodes = mk(self, opat, ocap, vec![n1, n2]);
        let (src, dst) = (sc(self, icap, &a), sc(self, icap, &b));
        let edge_stmt = Stmt::Edge { id: self.id(), src, dst };
        let edge = mk(self, ipat, icap, vec![edge_stmt]);
        // the attribute: from the outer node (visited first by lazy evaluation) or the inner one
        let (apat, acap) = if self.t.chance(2, 3) { (opat, ocap) } else { (ipat, icap) };
        let (src, dst) = (sc(self, acap, &a), sc(self, acap, &b));
        let value = match self.t.choose(3) {
            0 => None,
            1 => Some(Expr::Str("w".into())),
            _ => Some(Expr::Int(7, 0)),
        };
        let attr_stmt = Stmt::AttrEdge { id: self.id(), src, dst, attrs: vec![Attr { name: "weight".into(), value }] };
        let attr = mk(self, apat, acap, vec![attr_stmt]);
        self.features.insert("edge-attribute-from-another-stanza");
        vec![nodes, edge, attr]
    }
}

pub const FAULTS: &[&str] = &[
    "type-plus",
    "type-not",
    "unknown-function",
    "edge-non-node",
    "attr-non-node",
    "attr-conflict",
    "undefined-edge",
    "undefined-scoped",
    "duplicate-scoped",
    "scan-non-string",
    "for-non-list",
    "regex-capture",
    "format-args",
    "overflow",
    "type-in-list",
    "shorthand-free-variable",
    "edge-attr-conflict",
    "type-in-print",
    "type-through-aliases",
    "scope-is-null",
];

// ------------------------------------------------------------------------------------------------
// whole programs

fn rename_capture(query: &str, old: &str, new: &str) -> String {
    // replace `@old` where not followed by an identifier character
    let needle = format!("@{}", old);
    let mut out = String::new();
    let mut rest = query;
    while let Some(pos) = rest.find(&needle) {
        let after = &rest[pos + needle.len()..];
        let boundary = !after.chars().next().map(|c| c == '_' || c == '-' || c.is_alphanumeric()).unwrap_or(false);
        out.push_str(&rest[..pos]);
        if boundary {
            out.push('@');
            out.push_str(new);
        } else {
            out.push_str(&needle);
        }
        rest = after;
    }
    out.push_str(rest);
    out
}

impl<'t, 'b> G<'t, 'b> {
    fn stanza(&mut self) -> Option<Stanza> {
        let (entry, pool_idx): (&'static PoolEntry, usize) = if self.cfg.d7 && self.t.chance(1, 12) {
            let i = self.t.choose(D7_POOL.len());
            (&D7_POOL[i], usize::MAX)
        } else if !self.cfg.pool_subset.is_empty() {
            let i = self.cfg.pool_subset[self.t.choose(self.cfg.pool_subset.len())];
            (&POOL[i], i)
        } else {
            // the first entries (single-capture kinds) a little more often: they anchor scoped
            // variables; and entries whose captures can read what earlier stanzas defined
            let covered: Vec<&'static str> = self
                .scoped
                .iter()
                .filter_map(|s| match s.coverage {
                    Coverage::Kind(k) => Some(k),
                    _ => None,
                })
                .collect();
            let readers: Vec<usize> = (0..POOL.len()).filter(|i| POOL[*i].caps.iter().any(|(_, k)| covered.contains(k))).collect();
            let i = match self.t.choose(3) {
                0 => self.t.choose(4),
                1 if !readers.is_empty() => readers[self.t.choose(readers.len())],
                _ => self.t.choose(POOL.len()),
            };
            (&POOL[i], i)
        };
        let mut names: Vec<(&str, String)> = vec![];
        for (ph, _) in entry.caps {
            let mut name = if self.t.chance(1, 2) { ph.to_string() } else { CAP_NAMES[self.t.choose(CAP_NAMES.len())].to_string() };
            if self.t.chance(1, 12) {
                name = format!("_{}", name);
            }
            while names.iter().any(|(_, n)| n == &name) {
                name.push('2');
            }
            names.push((ph, name));
        }
        let query = pool::instantiate(entry.pattern, &names);
        let cq = pool::compile(&query)?;
        self.caps = cq
            .captures
            .iter()
            .map(|c| {
                let (ph, _) = names.iter().find(|(_, n)| n == &c.name).cloned().unwrap_or(("?", String::new()));
                let kinds = entry.caps.iter().find(|(p, _)| *p == ph).map(|x| x.1).unwrap_or("*");
                let placeholder = entry.caps.iter().find(|(p, _)| *p == ph).map(|x| x.0).unwrap_or("?");
                CapInfo { name: c.name.clone(), quant: c.quant, kinds, used: false, placeholder }
            })
            .collect();
        self.current_entry_covers = entry.covers.map(|k| (names[0].1.clone(), k));
        self.defined_here.clear();
        self.frames = vec![vec![]];
        self.attr_used = vec![BTreeMap::new()];
        self.edges_here = vec![vec![]];
        self.regex_groups = None;
        let id = self.id();
        let body = self.block(0);
        // unused captures get the `_` prefix (or are used by a print)
        let mut query = query;
        let mut captures: Vec<Cap> = cq.captures.clone();
        let mut body = body;
        let really_used = used_captures(&body);
        for c in self.caps.clone() {
            if !really_used.contains(&c.name) && !c.name.starts_with('_') {
                if self.cfg.prints && self.t.chance(1, 4) {
                    body.push(Stmt::Print { id: self.id(), values: vec![Expr::Capture { id: self.id(), name: c.name.clone() }] });
                } else {
                    let mut new = format!("_{}", c.name);
                    while captures.iter().any(|x| x.name == new) {
                        new.push('2');
                    }
                    query = rename_capture(&query, &c.name, &new);
                    for cap in captures.iter_mut() {
                        if cap.name == c.name {
                            cap.name = new.clone();
                        }
                    }
                }
            }
        }
        let _ = &self.caps.iter().map(|c| c.placeholder).count();
        self.stanza_idx += 1;
        Some(Stanza { id, query, captures, body, pool: pool_idx })
    }

    fn shorthand(&mut self, idx: usize) -> Item {
        let name = format!("sh{}", idx);
        let arg = [Ty::Str, Ty::Int, Ty::Bool][self.t.choose(3)].clone();
        let mut var = ["val", "v", "something"][self.t.choose(3)].to_string();
        // risky: a parameter named like a declared global (the checker does not look into
        // shorthands; using the shorthand fails at run time)
        if !self.globals.is_empty() && self.risky() {
            var = self.globals[self.t.choose(self.globals.len())].name.clone();
            self.features.insert("shorthand-parameter-named-like-a-global");
        }
        let var_id = self.id();
        let id = self.id();
        self.in_shorthand_body = true;
        let saved_caps = std::mem::take(&mut self.caps);
        self.frames = vec![vec![Local { name: var.clone(), ty: arg.clone(), mutable: false, local: false, quant: Quant::One, binder: true, fresh_node: false, kinds: "*", alias_of: None }]];
        self.attr_used = vec![BTreeMap::new()];
        self.edges_here = vec![vec![]];
        let n = 1 + self.t.choose(3);
        let mut attrs = vec![];
        let mut expands_to = vec![];
        for k in 0..n {
            // an earlier shorthand used from this one (nesting, never recursion)
            if !self.shorthands.is_empty() && self.t.chance(1, 5) {
                let inner = self.shorthands[self.t.choose(self.shorthands.len())].clone();
                if inner.expands_to.iter().all(|a| !expands_to.contains(a)) && !attrs.iter().any(|a: &Attr| a.name == inner.name) {
                    let v = self.expr(&inner.arg, false, 1);
                    expands_to.extend(inner.expands_to.clone());
                    attrs.push(Attr { name: inner.name.clone(), value: Some(v) });
                    self.features.insert("nested-shorthand");
                    continue;
                }
            }
            let aname = format!("{}_{}", name, ["a", "b", "c"][k]);
            let ty = if self.t.chance(1, 2) { arg.clone() } else { [Ty::Str, Ty::Int, Ty::Bool][self.t.choose(3)].clone() };
            let value = if ty == arg && self.t.chance(1, 2) { Expr::Var { id: self.id(), name: var.clone() } } else { self.expr(&ty, false, 1) };
            expands_to.push(aname.clone());
            attrs.push(Attr { name: aname, value: Some(value) });
        }
        self.in_shorthand_body = false;
        self.caps = saved_caps;
        self.shorthands.push(ShorthandInfo { name: name.clone(), arg, expands_to });
        Item::Shorthand { id, name, var_id, var, attrs }
    }
}

/// Generate a program (and the globals its caller supplies).
pub fn generate(t: &mut Tape, cfg: &GenCfg) -> Generated {
    let mut g = G {
        t,
        cfg: cfg.clone(),
        ids: Ids::default(),
        frames: vec![vec![]],
        caps: vec![],
        globals: vec![],
        scoped: vec![],
        inherited: BTreeSet::new(),
        shorthands: vec![],
        regex_groups: None,
        counter: 0,
        stanza_idx: 0,
        features: BTreeSet::new(),
        attr_used: vec![BTreeMap::new()],
        edges_here: vec![vec![]],
        in_shorthand_body: false,
        fault_pending: None,
        fault_at: 0,
        stmt_count: 0,
        fault_done: None,
        current_entry_covers: None,
        loop_depth: 0,
        extra_items: vec![],
        read_names: BTreeSet::new(),
        defined_here: BTreeSet::new(),
        fault_id: None,
        fault_pair: None,
    };
    let mut head: Vec<Item> = vec![];
    let mut supplied = BTreeMap::new();
    if cfg.globals {
        let n = if cfg.force_globals { 1 + g.t.choose(4) } else { g.t.weighted(&[5, 3, 2, 1]) };
        for i in 0..n {
            let name = ["filepath", "gval", "opt_g", "items"][i].to_string();
            let quant = [Quant::One, Quant::One, Quant::Opt, Quant::Star, Quant::Plus][g.t.choose(5)];
            let default = if g.t.chance(1, 3) { Some(STRS[g.t.choose(STRS.len())].to_string()) } else { None };
            let (ty, value) = match quant {
                Quant::One | Quant::Opt => {
                    let v = if quant == Quant::Opt && g.t.chance(1, 2) { CVal::Null } else { CVal::Str(STRS[g.t.choose(STRS.len())].to_string()) };
                    (Ty::Str, v)
                }
                _ => {
                    if default.is_some() {
                        // a defaulted list global is only sound when supplied (the default is a string)
                        (Ty::List(Box::new(Ty::Str)), CVal::List(vec![CVal::Str("p".into()), CVal::Str("q".into())]))
                    } else if g.t.chance(1, 2) {
                        (Ty::List(Box::new(Ty::Int)), CVal::List((0..g.t.choose(4)).map(|k| CVal::Int(k as u32)).collect()))
                    } else {
                        (Ty::List(Box::new(Ty::Str)), CVal::List((0..g.t.choose(3)).map(|k| CVal::Str(format!("s{}", k))).collect()))
                    }
                }
            };
            let omit = default.is_some() && !quant.is_list() && quant != Quant::Opt && g.t.chance(1, 2);
            if !omit {
                supplied.insert(name.clone(), value);
            }
            g.globals.push(GlobalInfo { name: name.clone(), quant, ty });
            let id = g.id();
            head.push(Item::Global { id, name, quant, default });
            g.features.insert("global");
        }
    }
    for i in 0..cfg.gnode_globals {
        let name = format!("n{}", i);
        g.globals.push(GlobalInfo { name: name.clone(), quant: Quant::One, ty: Ty::GNode });
        let id = g.id();
        head.push(Item::Global { id, name, quant: Quant::One, default: None });
    }
    if cfg.shorthands {
        let n = g.t.weighted(&[4, 3, 2]);
        for i in 0..n {
            let item = g.shorthand(i);
            head.push(item);
            g.features.insert("shorthand");
        }
    }
    if cfg.fault {
        let k = FAULTS[g.t.choose(FAULTS.len())];
        g.fault_pending = Some(k);
        g.fault_at = 1 + g.t.choose(14);
    }
    let nst = 1 + g.t.choose(cfg.max_stanzas);
    let mut stanzas = vec![];
    let mut tries = 0;
    while stanzas.len() < nst && tries < nst + 4 {
        tries += 1;
        if let Some(s) = g.stanza() {
            stanzas.push(Item::Stanza(s));
        }
    }
    if cfg.edge_idiom && g.t.chance(1, 6) {
        let extra = g.attr_idiom();
        let mut at: Vec<usize> = (0..extra.len()).map(|_| g.t.choose(stanzas.len() + 1)).collect();
        at.sort();
        for (k, (pos, st)) in at.into_iter().zip(extra.into_iter()).enumerate() {
            stanzas.insert(pos + k, Item::Stanza(st));
        }
    }
    if cfg.edge_idiom && g.t.chance(1, 4) {
        let extra = g.edge_idiom();
        // keep their relative order (strict needs nodes, then edge, then attribute)
        let mut at: Vec<usize> = (0..extra.len()).map(|_| g.t.choose(stanzas.len() + 1)).collect();
        at.sort();
        for (k, (pos, st)) in at.into_iter().zip(extra.into_iter()).enumerate() {
            stanzas.insert(pos + k, Item::Stanza(st));
        }
    }
    let mut items = vec![];
    for name in g.inherited.clone() {
        items.push(Item::Inherit { name });
        g.features.insert("inherit");
    }
    if g.t.chance(1, 6) {
        items.push(Item::Inherit { name: "unused_name".into() });
    }
    // head items before the stanzas; sometimes one of them moves to the end of the file
    let move_last = if !head.is_empty() && g.t.chance(1, 5) { head.pop() } else { None };
    items.extend(head);
    items.extend(std::mem::take(&mut g.extra_items));
    items.extend(stanzas);
    if let Some(it) = move_last {
        items.push(it);
    }
    Generated { prog: GProg { items }, globals: supplied, features: g.features, fault: g.fault_done, fault_id: g.fault_id, fault_pair: g.fault_pair }
}
