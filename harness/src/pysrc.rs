//! S1 — Python sources: committed corpus, grammar-based generator, syntax-fault injector.

use crate::engine::Tape;
use std::cell::RefCell;
use tree_sitter::{Language, Parser, Tree};

pub fn lang() -> Language {
    tree_sitter_python::LANGUAGE.into()
}

thread_local! {
    static PARSER: RefCell<Parser> = RefCell::new({
        let mut p = Parser::new();
        p.set_language(&lang()).expect("python grammar");
        p
    });
}

pub fn parse(src: &str) -> Tree {
    PARSER.with(|p| p.borrow_mut().parse(src, None).expect("tree-sitter parse"))
}

/// Snippets from tests/it and the reference, plus hand-written shapes (deep nesting, many nodes of
/// one kind, single-token files where module / statement / expression share one range).
pub const CORPUS: &[&str] = &[
    "pass",
    "pass\n",
    "x",
    "x\n",
    "foo(a, b.c)\n",
    "from one.two import d, e.c\nimport three\nprint(d, e.c)\nprint three.f\n",
    "import a\nfrom b import c\nprint a.d.f\n",
    "def f(x):\n    return x\n",
    "def f(x, y):\n    z = x\n    return g(z, y)\n\nf(1, 2)\n",
    "class A:\n    def m(self):\n        pass\n\n    def n(self, a):\n        return a.b.c\n",
    "if a:\n    b\nelif c:\n    d\nelse:\n    e\n",
    "for i in xs:\n    if i:\n        f(i)\n    else:\n        g(i, i)\n",
    "while x:\n    x = f(x)\n    y = x.a.b.c\n",
    "a = 1\nb = 2\nc = a\nd = b\ne = c\n",
    "a.b.c.d.e\n",
    "f(g(h(i(j(k)))))\n",
    "x = [a, b, c]\ny = (d, e)\nz = {f: g}\n",
    "s = \"héllo wörld\"\nt = 'ab'\n",
    "é = 1\nprint(é)\n",
    "import a.b.c\nimport d.e\nfrom f.g import h\n",
    "def f():\n    def g():\n        def h():\n            return 1\n        return h\n    return g\n",
    "a\nb\nc\nd\ne\nf\ng\nh\n",
    "foo(a)\nbar(b)\nbaz(c, d)\nqux()\n",
    "x = a if b else c\n",
    "return\n",
    "",
    "\n\n",
    "# only a comment\n",
    "a = b = c\n",
    "print a, b\nprint c\n",
    "lambda x: x\n",
    "with a as b:\n    c\n",
    "try:\n    a\nexcept B:\n    c\n",
    "# doc\ndef f(): pass\n",
    "# a\npass\n# b\npass\nx\n# c\npass\n",
    "x: int = 1\ny: str = x\n",
    "pass\nx\npass\ny\nz\npass\n",
    "def f():\n    a\n    return a\n    pass\n    b\n    return\n",
];

/// Sources whose only syntax errors are MISSING (anonymous) tokens: no ERROR node anywhere.
pub const MISSING_ONLY: &[&str] = &[
    "def f(:\n  pass\n",
    "def g(:\n  return 1\n",
    "class A:\n  def m(:\n    pass\n",
    "x = 1\ndef f(:\n  pass\ny = 2\n",
    "def é(:\n  pass\n",
    "def f(:\n  pass\ndef g(:\n  pass\n",
];

/// Sources whose tree root is itself an ERROR node (not `module`).
pub const ROOT_ERROR: &[&str] = &["class A:\n  def g(self\n", "def f(a,\n", "class B(\n  x = 1\n"];

/// Larger files that contain every construct the query pool looks for.
pub const RICH: &[&str] = &[
    "import os.path, sys\nfrom a.b import c, d.e\n\nclass Foo:\n    def bar(self, x, y):\n        z = x.y.z\n        if z:\n            return foo(z, 1)\n        elif y:\n            pass\n        else:\n            print z\n        return\n\n    def baz(self):\n        pass\n\ndef main(a, b):\n    for i in [a, b, 3]:\n        while i:\n            i = g(i).h\n    s = \"str\" + 'é'\n    return s\n\nmain(1, x)\na\nb.c\npass\n",
    "a\nb\nfoo(a, b)\nbar()\nx = f(1)\ny = x.a.b\nimport m.n\nfrom p import q\npass\ndef f(a):\n    return a\nf(f(a))\nprint a, b\n[a, 1, c]\n",
    "def a(x):\n    def b(y):\n        return x.y(y)\n    return b\n\nclass C:\n    def m(self):\n        return self.n(1, 2, three)\n\nif a:\n    b = c\nelse:\n    d = e.f\n",
];

const IDENTS: &[&str] = &["a", "b", "c", "foo", "bar", "x1", "é", "self", "名"];
const STRINGS: &[&str] = &["\"s\"", "'t'", "\"héllo\"", "\"\"", "'a b'"];

fn ident(t: &mut Tape) -> &'static str {
    IDENTS[t.choose(IDENTS.len())]
}

fn gen_expr(t: &mut Tape, depth: usize) -> String {
    let k = if depth >= 3 { t.choose(3) } else { t.weighted(&[6, 2, 2, 5, 4, 2, 1, 1]) };
    match k {
        0 => ident(t).to_string(),
        1 => format!("{}", t.choose(100)),
        2 => STRINGS[t.choose(STRINGS.len())].to_string(),
        3 => {
            let f = if t.chance(1, 4) { gen_expr(t, depth + 1) } else { ident(t).to_string() };
            let n = t.choose(4);
            let args: Vec<String> = (0..n).map(|_| gen_expr(t, depth + 1)).collect();
            format!("{}({})", f, args.join(", "))
        }
        4 => {
            let o = if t.chance(1, 3) { gen_expr(t, depth + 1) } else { ident(t).to_string() };
            // attribute object must be a primary: wrap non-trivial objects
            let o = if o.chars().all(|c| c.is_alphanumeric() || c == '.' || c == '_' || c == '(' || c == ')' || c == ',' || c == ' ') && !o.chars().next().map(|c| c.is_ascii_digit()).unwrap_or(false) {
                o
            } else {
                format!("({})", o)
            };
            format!("{}.{}", o, ident(t))
        }
        5 => format!("{} + {}", gen_expr(t, depth + 1), gen_expr(t, depth + 1)),
        6 => {
            let n = t.choose(4);
            let xs: Vec<String> = (0..n).map(|_| gen_expr(t, depth + 1)).collect();
            format!("[{}]", xs.join(", "))
        }
        _ => format!("({})", gen_expr(t, depth + 1)),
    }
}

fn dotted(t: &mut Tape) -> String {
    let n = 1 + t.choose(3);
    (0..n).map(|_| ident(t)).collect::<Vec<_>>().join(".")
}

fn gen_block(t: &mut Tape, depth: usize, indent: usize, in_def: bool, out: &mut String) {
    let n = 1 + t.choose(if depth == 0 { 6 } else { 3 });
    for _ in 0..n {
        gen_stmt(t, depth, indent, in_def, out);
    }
}

fn gen_stmt(t: &mut Tape, depth: usize, indent: usize, in_def: bool, out: &mut String) {
    let pad = " ".repeat(indent * 4);
    let k = if depth >= 4 {
        t.weighted(&[2, 5, 3, 2, 1])
    } else {
        t.weighted(&[2, 6, 4, 2, 2, 2, 3, 2, 2, 1, 1, 2, 1])
    };
    match k {
        0 => out.push_str(&format!("{}pass\n", pad)),
        1 => out.push_str(&format!("{}{}\n", pad, gen_expr(t, 0))),
        2 => out.push_str(&format!("{}{} = {}\n", pad, ident(t), gen_expr(t, 0))),
        3 => {
            let n = 1 + t.choose(3);
            let names: Vec<String> = (0..n).map(|_| dotted(t)).collect();
            out.push_str(&format!("{}import {}\n", pad, names.join(", ")));
        }
        4 => {
            let n = 1 + t.choose(3);
            let names: Vec<String> = (0..n).map(|_| dotted(t)).collect();
            out.push_str(&format!("{}from {} import {}\n", pad, dotted(t), names.join(", ")));
        }
        5 => {
            if in_def && t.chance(3, 4) {
                if t.chance(1, 3) {
                    out.push_str(&format!("{}return\n", pad));
                } else {
                    out.push_str(&format!("{}return {}\n", pad, gen_expr(t, 0)));
                }
            } else {
                out.push_str(&format!("{}print {}\n", pad, gen_expr(t, 1)));
            }
        }
        6 => {
            let n = t.choose(4);
            let params: Vec<&str> = (0..n).map(|_| ident(t)).collect();
            out.push_str(&format!("{}def {}({}):\n", pad, ident(t), params.join(", ")));
            gen_block(t, depth + 1, indent + 1, true, out);
        }
        7 => {
            out.push_str(&format!("{}class {}:\n", pad, ident(t)));
            gen_block(t, depth + 1, indent + 1, false, out);
        }
        8 => {
            out.push_str(&format!("{}if {}:\n", pad, gen_expr(t, 1)));
            gen_block(t, depth + 1, indent + 1, in_def, out);
            if t.chance(1, 3) {
                out.push_str(&format!("{}elif {}:\n", pad, gen_expr(t, 1)));
                gen_block(t, depth + 1, indent + 1, in_def, out);
            }
            if t.chance(1, 3) {
                out.push_str(&format!("{}else:\n", pad));
                gen_block(t, depth + 1, indent + 1, in_def, out);
            }
        }
        9 => {
            out.push_str(&format!("{}for {} in {}:\n", pad, ident(t), gen_expr(t, 1)));
            gen_block(t, depth + 1, indent + 1, in_def, out);
        }
        10 => {
            out.push_str(&format!("{}while {}:\n", pad, gen_expr(t, 1)));
            gen_block(t, depth + 1, indent + 1, in_def, out);
        }
        11 => out.push_str(&format!("{}# comment é\n", pad)),
        _ => out.push_str(&format!("{}{}: {} = {}\n", pad, ident(t), ident(t), gen_expr(t, 0))),
    }
}

pub fn gen_module(t: &mut Tape) -> String {
    let mut out = String::new();
    gen_block(t, 0, 0, false, &mut out);
    out
}

/// A source: from the corpus or generated (2 of 3).
pub fn gen_source(t: &mut Tape) -> String {
    match t.choose(4) {
        0 => CORPUS[t.choose(CORPUS.len())].to_string(),
        1 => RICH[t.choose(RICH.len())].to_string(),
        _ => gen_module(t),
    }
}

// ------------------------------------------------------------------------------------------------
// Fault injection

fn tokens(src: &str) -> Vec<String> {
    let mut out = vec![];
    let mut cur = String::new();
    let mut kind = 0; // 0 none, 1 word, 2 space
    for c in src.chars() {
        let k = if c.is_alphanumeric() || c == '_' {
            1
        } else if c == ' ' {
            2
        } else {
            3
        };
        if k == 3 || k != kind {
            if !cur.is_empty() {
                out.push(std::mem::take(&mut cur));
            }
        }
        cur.push(c);
        kind = k;
        if k == 3 {
            out.push(std::mem::take(&mut cur));
            kind = 0;
        }
    }
    if !cur.is_empty() {
        out.push(cur);
    }
    out
}

const STRAY: &[&str] = &["$", "?", ")", "(", "]", "[", "}", "{", ":", ",", "=", "é", "\"", "'", "!", ".", " def ", " in "];

/// Applies `n` token-level faults.
pub fn inject_faults(t: &mut Tape, src: &str, n: usize) -> String {
    let mut toks = tokens(src);
    for _ in 0..n {
        if toks.is_empty() {
            toks.push(STRAY[t.choose(STRAY.len())].to_string());
            continue;
        }
        // position: biased to start, end, or anywhere
        let pos = match t.choose(4) {
            0 => 0,
            1 => toks.len() - 1,
            _ => t.choose(toks.len()),
        };
        match t.choose(5) {
            0 => {
                toks.remove(pos);
            }
            1 => {
                let x = toks[pos].clone();
                toks.insert(pos, x);
            }
            2 => {
                let other = t.choose(toks.len());
                toks.swap(pos, other);
            }
            3 => {
                let s = STRAY[t.choose(STRAY.len())].to_string();
                toks.insert(pos, s);
            }
            _ => {
                let s = STRAY[t.choose(STRAY.len())].to_string();
                let at = if t.chance(1, 2) { toks.len() } else { pos };
                toks.insert(at, s);
            }
        }
    }
    toks.concat()
}
