//! S2 — syntax-tree index: the harness's own notion of node identity (pre-order number), derived
//! from one TreeCursor walk, independent of the library's truncated node id and of Node::parent().

use std::collections::HashMap;
use tree_sitter::{Node, Tree};

#[derive(Debug, Clone)]
pub struct NodeInfo {
    pub pre: usize,
    pub parent: Option<usize>,
    pub depth: usize,
    pub kind: &'static str,
    pub named: bool,
    pub is_error: bool,
    pub is_missing: bool,
    pub start_byte: usize,
    pub end_byte: usize,
    pub start_row: usize,
    pub start_col: usize,
    pub end_row: usize,
    pub end_col: usize,
    /// number of named children
    pub named_children: usize,
    /// index among the parent's named children (None for anonymous nodes and the root)
    pub named_index: Option<usize>,
    pub child_count: usize,
}

pub struct TreeIndex<'t> {
    pub nodes: Vec<NodeInfo>,
    pub ts_nodes: Vec<Node<'t>>,
    by_id: HashMap<usize, usize>,
}

impl<'t> TreeIndex<'t> {
    pub fn new(tree: &'t Tree) -> TreeIndex<'t> {
        let mut nodes: Vec<NodeInfo> = vec![];
        let mut ts_nodes = vec![];
        let mut by_id = HashMap::new();
        let mut cursor = tree.walk();
        // stack of (pre index, named children seen so far)
        let mut stack: Vec<(usize, usize)> = vec![];
        loop {
            let n = cursor.node();
            let pre = nodes.len();
            let parent = stack.last().map(|x| x.0);
            let named_index = if n.is_named() {
                match stack.last_mut() {
                    Some(top) => {
                        let i = top.1;
                        top.1 += 1;
                        Some(i)
                    }
                    None => None,
                }
            } else {
                None
            };
            nodes.push(NodeInfo {
                pre,
                parent,
                depth: stack.len(),
                kind: n.kind(),
                named: n.is_named(),
                is_error: n.is_error(),
                is_missing: n.is_missing(),
                start_byte: n.start_byte(),
                end_byte: n.end_byte(),
                start_row: n.start_position().row,
                start_col: n.start_position().column,
                end_row: n.end_position().row,
                end_col: n.end_position().column,
                named_children: 0,
                named_index,
                child_count: 0,
            });
            if let Some(p) = parent {
                nodes[p].child_count += 1;
                if n.is_named() {
                    nodes[p].named_children += 1;
                }
            }
            // two distinct nodes can share an id only if tree-sitter reuses subtrees; keep the first
            by_id.entry(n.id()).or_insert(pre);
            ts_nodes.push(n);
            if cursor.goto_first_child() {
                stack.push((pre, 0));
                continue;
            }
            loop {
                if cursor.goto_next_sibling() {
                    break;
                }
                if !cursor.goto_parent() {
                    return TreeIndex { nodes, ts_nodes, by_id };
                }
                stack.pop();
            }
        }
    }

    pub fn pre_of(&self, node: &Node) -> Option<usize> {
        let pre = *self.by_id.get(&node.id())?;
        // guard against id reuse: must agree on kind and byte range
        let info = &self.nodes[pre];
        if info.kind == node.kind() && info.start_byte == node.start_byte() && info.end_byte == node.end_byte() {
            Some(pre)
        } else {
            // fall back to a linear search by (kind, range, id)
            self.ts_nodes.iter().position(|n| n == node)
        }
    }

    pub fn len(&self) -> usize {
        self.nodes.len()
    }

    pub fn ancestors(&self, pre: usize) -> Vec<usize> {
        let mut out = vec![];
        let mut cur = self.nodes[pre].parent;
        while let Some(p) = cur {
            out.push(p);
            cur = self.nodes[p].parent;
        }
        out
    }

    pub fn text<'a>(&self, pre: usize, source: &'a str) -> &'a str {
        let n = &self.nodes[pre];
        &source[n.start_byte..n.end_byte]
    }
}
