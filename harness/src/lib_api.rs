//! Thin layer over the public API of the library under test: loading, executing under a counting
//! cancellation flag, converting values, classifying errors.

use crate::cval::{observe, CVal, MGraph};
use crate::engine::{call_lib, LibPanic};
use crate::pysrc;
use crate::tree::TreeIndex;
use std::cell::Cell;
use std::collections::BTreeMap;
use std::path::Path;
use tree_sitter::Tree;
use tree_sitter_graph::ast::File;
use tree_sitter_graph::functions::Functions;
use tree_sitter_graph::graph::{Graph, Value};
use tree_sitter_graph::{CancellationError, CancellationFlag, ExecutionConfig, ExecutionError, Identifier, ParseError, Variables};

/// Poll bound when no reference run is available (C05, C19): far above what any generated input
/// needs, so a breach means the run no longer advances.
pub const POLL_CAP: u64 = 2_000_000;

/// Poll bound relative to a reference run: 64 polls per reference step, at least 2 000 000.  A
/// breach is only meaningful when the reference run was complete (did not stop at an error):
/// callers treat a breach next to a failing reference run as inconclusive.
pub fn poll_cap_for(model_steps: u64) -> u64 {
    (64 * model_steps).max(2_000_000)
}

pub struct CountingFlag {
    pub polls: Cell<u64>,
    /// fail from this poll (1-based) on
    pub fail_from: Option<u64>,
    pub cap: u64,
    pub capped: Cell<bool>,
    pub sites: std::cell::RefCell<BTreeMap<&'static str, u64>>,
}

impl CountingFlag {
    pub fn new(fail_from: Option<u64>) -> Self {
        CountingFlag { polls: Cell::new(0), fail_from, cap: POLL_CAP, capped: Cell::new(false), sites: Default::default() }
    }
    pub fn with_cap(cap: u64) -> Self {
        CountingFlag { polls: Cell::new(0), fail_from: None, cap, capped: Cell::new(false), sites: Default::default() }
    }
}

impl CancellationFlag for CountingFlag {
    fn check(&self, at: &'static str) -> Result<(), CancellationError> {
        let n = self.polls.get() + 1;
        self.polls.set(n);
        *self.sites.borrow_mut().entry(at).or_default() += 1;
        if let Some(k) = self.fail_from {
            if n >= k {
                return Err(CancellationError(at));
            }
        }
        if n > self.cap {
            self.capped.set(true);
            return Err(CancellationError("poll bound exceeded"));
        }
        Ok(())
    }
}

pub fn load(text: &str) -> Result<Result<File, ParseError>, LibPanic> {
    call_lib(|| File::from_str(pysrc::lang(), text))
}

/// Convert a model value into a library value.  Graph-node values must index into `graph`;
/// syntax nodes are added to the graph.
pub fn to_value<'t>(v: &CVal, graph: &mut Graph<'t>, index: &TreeIndex<'t>) -> Value {
    match v {
        CVal::Null => Value::Null,
        CVal::Bool(b) => Value::Boolean(*b),
        CVal::Int(i) => Value::Integer(*i),
        CVal::Str(s) => Value::String(s.clone()),
        CVal::List(xs) => Value::List(xs.iter().map(|x| to_value(x, graph, index)).collect()),
        CVal::Set(xs) => Value::Set(xs.iter().map(|x| to_value(x, graph, index)).collect()),
        CVal::Syn(p) => Value::SyntaxNode(graph.add_syntax_node(index.ts_nodes[*p])),
        CVal::GNode(n) => {
            let r = graph.iter_nodes().nth(*n).expect("graph node index in range");
            Value::GraphNode(r)
        }
    }
}

#[derive(Clone, Debug, Default)]
pub struct ExecOpts {
    pub lazy: bool,
    /// (location, variable name, match node) attribute names
    pub debug: Option<(String, String, String)>,
}

pub enum ExecOutcome {
    Ok,
    Err(ExecutionError),
    Panic(LibPanic),
    /// the cancellation flag was polled more often than any terminating run needs
    PollBound(u64),
}

pub fn variables_from<'t>(globals: &BTreeMap<String, CVal>, graph: &mut Graph<'t>, index: &TreeIndex<'t>) -> Variables<'static> {
    let mut vars = Variables::new();
    for (k, v) in globals {
        let value = to_value(v, graph, index);
        vars.add(Identifier::from(k.as_str()), value).expect("distinct global names");
    }
    vars
}

/// Execute `file` into `graph`.
pub fn execute_into<'t>(
    file: &File,
    graph: &mut Graph<'t>,
    tree: &'t Tree,
    index: &TreeIndex<'t>,
    source: &'t str,
    globals: &BTreeMap<String, CVal>,
    opts: &ExecOpts,
    flag: &CountingFlag,
) -> ExecOutcome {
    let functions = Functions::stdlib();
    let vars = variables_from(globals, graph, index);
    let mut config = ExecutionConfig::new(&functions, &vars).lazy(opts.lazy);
    if let Some((l, v, m)) = &opts.debug {
        config = config.debug_attributes(Identifier::from(l.as_str()), Identifier::from(v.as_str()), Identifier::from(m.as_str()));
    }
    let r = call_lib(|| file.execute_into(graph, tree, source, &config, flag));
    match r {
        Err(p) => ExecOutcome::Panic(p),
        Ok(_) if flag.capped.get() => ExecOutcome::PollBound(flag.polls.get()),
        Ok(Ok(())) => ExecOutcome::Ok,
        Ok(Err(e)) => ExecOutcome::Err(e),
    }
}

pub enum LibRun {
    Ok(MGraph),
    Err(ExecutionError),
    Panic(LibPanic),
    PollBound(u64),
    /// the resulting graph could not be read back consistently
    BadGraph(String),
}

/// Execute on a fresh graph and observe the result.
pub fn run<'t>(file: &File, tree: &'t Tree, index: &TreeIndex<'t>, source: &'t str, globals: &BTreeMap<String, CVal>, opts: &ExecOpts) -> (LibRun, u64) {
    run_capped(file, tree, index, source, globals, opts, POLL_CAP)
}

/// Execute on a fresh graph under the given poll bound and observe the result.
pub fn run_capped<'t>(file: &File, tree: &'t Tree, index: &TreeIndex<'t>, source: &'t str, globals: &BTreeMap<String, CVal>, opts: &ExecOpts, cap: u64) -> (LibRun, u64) {
    let mut graph = Graph::new();
    let flag = CountingFlag::with_cap(cap);
    let out = execute_into(file, &mut graph, tree, index, source, globals, opts, &flag);
    let polls = flag.polls.get();
    (
        match out {
            ExecOutcome::Ok => match observe(&graph, index) {
                Ok(g) => LibRun::Ok(g),
                Err(e) => LibRun::BadGraph(e),
            },
            ExecOutcome::Err(e) => LibRun::Err(e),
            ExecOutcome::Panic(p) => LibRun::Panic(p),
            ExecOutcome::PollBound(n) => LibRun::PollBound(n),
        },
        polls,
    )
}

/// Innermost cause of an execution error.
pub fn root_cause(e: &ExecutionError) -> &ExecutionError {
    let mut cur = e;
    while let ExecutionError::InContext(_, inner) = cur {
        cur = inner;
    }
    cur
}

pub fn variant_name(e: &ExecutionError) -> &'static str {
    match e {
        ExecutionError::Cancelled(_) => "Cancelled",
        ExecutionError::CannotAssignImmutableVariable(_) => "CannotAssignImmutableVariable",
        ExecutionError::CannotAssignScopedVariable(_) => "CannotAssignScopedVariable",
        ExecutionError::CannotDefineMutableScopedVariable(_) => "CannotDefineMutableScopedVariable",
        ExecutionError::DuplicateAttribute(_) => "DuplicateAttribute",
        ExecutionError::DuplicateEdge(_) => "DuplicateEdge",
        ExecutionError::DuplicateVariable(_) => "DuplicateVariable",
        ExecutionError::ExpectedGraphNode(_) => "ExpectedGraphNode",
        ExecutionError::ExpectedList(_) => "ExpectedList",
        ExecutionError::ExpectedBoolean(_) => "ExpectedBoolean",
        ExecutionError::ExpectedInteger(_) => "ExpectedInteger",
        ExecutionError::ExpectedString(_) => "ExpectedString",
        ExecutionError::ExpectedSyntaxNode(_) => "ExpectedSyntaxNode",
        ExecutionError::InvalidParameters(_) => "InvalidParameters",
        ExecutionError::InvalidVariableScope(_) => "InvalidVariableScope",
        ExecutionError::MissingGlobalVariable(_) => "MissingGlobalVariable",
        ExecutionError::RecursivelyDefinedScopedVariable(_) => "RecursivelyDefinedScopedVariable",
        ExecutionError::RecursivelyDefinedVariable(_) => "RecursivelyDefinedVariable",
        ExecutionError::UndefinedCapture(_) => "UndefinedCapture",
        ExecutionError::UndefinedFunction(_) => "UndefinedFunction",
        ExecutionError::UndefinedRegexCapture(_) => "UndefinedRegexCapture",
        ExecutionError::UndefinedScopedVariable(_) => "UndefinedScopedVariable",
        ExecutionError::EmptyRegexCapture(_) => "EmptyRegexCapture",
        ExecutionError::UndefinedEdge(_) => "UndefinedEdge",
        ExecutionError::UndefinedVariable(_) => "UndefinedVariable",
        ExecutionError::VariableScopesAlreadyForced(_) => "VariableScopesAlreadyForced",
        ExecutionError::FunctionFailed(_, _) => "FunctionFailed",
        ExecutionError::InContext(_, _) => "InContext",
        #[allow(unreachable_patterns)]
        _ => "Other",
    }
}

/// Render an execution error both ways; a panic while rendering is reported.
pub fn render_exec_error(e: &ExecutionError, source: &str, tsg: &str) -> Result<(String, String), LibPanic> {
    call_lib(|| {
        let plain = format!("{}", e);
        let pretty = format!("{}", e.display_pretty(Path::new("test.py"), source, Path::new("test.tsg"), tsg));
        (plain, pretty)
    })
}

pub fn render_parse_error(e: &ParseError, tsg: &str) -> Result<(String, String), LibPanic> {
    call_lib(|| {
        let plain = format!("{}", e);
        let pretty = format!("{}", e.display_pretty(Path::new("test.tsg"), tsg));
        (plain, pretty)
    })
}
