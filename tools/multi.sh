#!/bin/bash
# tools/multi.sh <worktree> <prefix> <ID> [<ID>...]     (SLOT=<name> selects the mutants/iso.sh slot)
# A sub-agent left SEEDED/m1..mN/{patch.diff,seeded_demo.rs,NOTES.md} in its scratch worktree (at the
# original code).  For each: confirm that the 162 tests + doctest pass with the change, that the demo
# fails with it and passes without, store it as /verif/seeded/<prefix>-mK/, run the given checks
# against it (mutants/iso.sh) and write meta.json.  Removes the worktree at the end.
wt="$1"; prefix="$2"; shift 2
export RUST_BACKTRACE=0 CARGO_NET_OFFLINE=true
prop="$(echo "${prefix:0:3}" | tr a-z A-Z)"
cd "$wt" || exit 2
git checkout -q -- . ; rm -f tests/seeded_demo.rs
for d in SEEDED/m*/; do
  k="$(basename "$d")"; name="$prefix-$k"; dest="/verif/seeded/$name"
  [ -f "$d/patch.diff" ] || continue
  echo "##### $name"
  git checkout -q -- . ; rm -f tests/seeded_demo.rs
  if ! git apply "$d/patch.diff"; then echo "PATCH DOES NOT APPLY - skipped"; continue; fi
  suite=$(cargo test --workspace --no-fail-fast --offline 2>&1 | grep -E "^test result" | tr '\n' ' ')
  cp "$d/seeded_demo.rs" tests/seeded_demo.rs
  with=$(cargo test --offline --test seeded_demo 2>&1 | grep -E "^test result|error\[|error:" | head -3 | tr '\n' ' ')
  git checkout -q -- src
  without=$(cargo test --offline --test seeded_demo 2>&1 | grep -E "^test result|error\[|error:" | head -3 | tr '\n' ' ')
  rm -f tests/seeded_demo.rs
  echo "suite with change   : $suite"
  echo "demo  with change   : $with"
  echo "demo  without change: $without"
  ok=1
  echo "$suite" | grep -q "ok. 162 passed; 0 failed" || ok=0
  echo "$suite" | grep -q "ok. 1 passed; 0 failed" || ok=0
  echo "$suite" | grep -q "FAILED" && ok=0
  echo "$with" | grep -q "FAILED" || ok=0
  echo "$without" | grep -q "FAILED\|error" && ok=0
  echo "$without" | grep -q "ok\." || ok=0
  if [ $ok = 0 ]; then echo "NOT CONFIRMED - skipped"; continue; fi
  mkdir -p "$dest"; cp "$d/patch.diff" "$dest/patch.diff"; cp "$d/seeded_demo.rs" "$dest/seeded_demo.rs"; cp "$d/NOTES.md" "$dest/NOTES.agent.md" 2>/dev/null
  results=""; detected=""
  for id in "$@"; do
    out=$(cd /verif && timeout 2400 mutants/iso.sh "${SLOT:-seed}" "$dest/patch.diff" "$id" 2>&1)
    echo "$out" | grep -E "^  C|^== " | cut -c1-260 | tail -3
    code=$(echo "$out" | grep -o "exit=[0-9]*" | tail -1)
    sig=$(echo "$out" | grep -E "^  C[0-9]+:" | head -1 | cut -c3-120)
    results="$results $id:$code"
    [ "$code" = "exit=1" ] && detected="$detected $id"
    printf '%s\t%s\t%s\n' "$id" "$code" "$sig" >> "$dest/.checks"
  done
  echo "CHECKS:$results"
  python3 - "$dest" "$prop" "$suite" "$with" "$without" <<'PY'
import sys, json, re, os
dest, prop, suite, with_, without = sys.argv[1:6]
short = lambda s: '; '.join(re.findall(r'(?:ok|FAILED)\. \d+ passed; \d+ failed', s))
notes = open(os.path.join(dest, 'NOTES.agent.md')).read() if os.path.exists(os.path.join(dest, 'NOTES.agent.md')) else ''
summary = ' '.join(l.strip() for l in notes.splitlines() if l.strip() and not l.startswith('#'))[:600]
checks, detected = {}, []
for l in open(os.path.join(dest, '.checks')):
    i, code, sig = (l.rstrip('\n').split('\t') + ['', ''])[:3]
    checks[f'{i} quick'] = f"{code.replace('=', ' ')}" + (f", {sig}" if sig else '')
    if code == 'exit=1': detected.append(i)
os.remove(os.path.join(dest, '.checks'))
meta = {"origin": "sub-agent (one of five changes per property), given only the property text and a scratch worktree",
        "property": prop, "change_and_trigger (from the agent's notes)": summary,
        "confirmed": {"suite_with_change (162 tests, doctest)": short(suite), "demo_with_change": short(with_), "demo_without_change": short(without)},
        "checks_run": checks, "detected_by": detected}
json.dump(meta, open(os.path.join(dest, 'meta.json'), 'w'), indent=1)
PY
done
cd /verif
git -C /repo worktree remove --force "$wt" && echo "worktree removed"
