#!/usr/bin/env python3
"""Regenerates /verif/MANIFEST.json from the table below (run from anywhere)."""
import json, os
ROOT = os.path.dirname(os.path.dirname(os.path.abspath(__file__)))

# id -> (category, technique, level text, level note, design ref)
CHECKS = {
 "C01": ("exploration",
         "reference-model differential: generated programs x trees, independent reference interpreter, graph isomorphism",
         "Generated DSL programs (whole statement/expression grammar, nested blocks, shorthands, globals, injected run-time faults) are executed in strict mode on generated and corpus Python trees and compared with an independent interpreter written from the language reference: Ok/Err must agree and graphs must be equal up to node renumbering. Exploration (sampling of an unbounded program space) is the right level: the property is a refinement claim against a prose reference; a differential against an executable model finds evaluation-rule slips that fixed examples miss, but cannot prove absence.",
         "Trusted: tree-sitter 0.24 query engine and Python grammar, regex crate, proptest, the reference interpreter (harness/src/interp.rs, stdlib.rs). Constructs the reference leaves unspecified are excluded by the generator (DESIGN.md §4).",
         "DESIGN.md §5 C01"),
 "C02": ("exploration",
         "differential testing of the two interpreters (strict vs lazy) on generated programs of the order-insensitive fragment",
         "Generated programs inside the order-insensitive fragment are executed in both modes on the same trees and globals; strict Ok must imply lazy Ok with an isomorphic graph, a strict failure with an order-independent cause must imply a lazy failure, and neither may panic. Exploration is the right level: the two interpreters duplicate their logic, and a differential over generated programs reaches the unsampled interactions; it cannot prove equivalence.",
         "Trusted: the generator's enforcement of the fragment (harness/src/gen.rs), graph isomorphism check (budgeted; exhausted budget counts as inconclusive), tree-sitter, proptest.",
         "DESIGN.md §5 C02"),
 "C03": ("exploration",
         "independent recomputation with tree-sitter (own Query/QueryCursor per stanza pattern) vs the public match visitors and probe-file execution in both modes",
         "Multi-stanza probe files over a pool of query shapes, with capture names shared across stanzas under different quantifiers and positions, are run on generated trees (incl. ERROR trees); File::try_visit_matches(lazy=false|true), Stanza::try_visit_matches and the executed probe graph in each mode must show exactly one block run per match that tree-sitter reports for the stanza's own pattern, with node / null / list capture values. Exploration is the right level: the index and quantifier tables only matter for multi-stanza files, which generation supplies in bulk.",
         "Trusted: tree-sitter's matching of the pattern as written (if appending a root capture changes the matches the case is inconclusive). Known finding D7 (root with >=3 captures, quantified root) is pinned and excluded from generation.",
         "DESIGN.md §5 C03"),
 "C04": ("exploration",
         "reference-model property testing with exact node identity: scenario generator for scoped variables (definers on several ancestor kinds, readers through many query paths, list elements, stored links) in both modes",
         "Scoped-variable scenarios and scoped-heavy generated programs are executed (strict, and lazy inside the order-insensitive fragment) on trees with deep nesting, same-range parent/child chains and many nodes of one kind, and compared with the reference interpreter keyed by pre-order node identity: same Ok/Err, same attribute values copied out of the variables, nearest-ancestor inheritance only for declared names, duplicate definitions rejected.",
         "Trusted: the reference interpreter and the tree index (one TreeCursor walk). 32-bit id collisions of tree-sitter nodes are out of reach (DESIGN §10).",
         "DESIGN.md §5 C04"),
 "C05": ("exploration",
         "total-function fuzzing with proptest-driven structured generation: mutated texts, accepted but failing programs, hostile globals; panic / abort / poll-bound oracles; libFuzzer targets in the thorough tier",
         "Token- and byte-level mutations of generated and example DSL files, accepted programs generated with a high rate of risky choices and injected run-time faults (globals supplied, missing or wrongly typed), and hand-written hazards are loaded and, when accepted, executed in both modes on error-free, ERROR-bearing, empty and non-ASCII trees; every error is rendered plain and pretty. A panic, a process abort (caught by a signal handler that dumps the candidate tapes) or a breach of the poll bound is a violation. Exploration is the only level a totality claim over all strings admits here.",
         "Trusted: the panic hook / catch_unwind boundary, the signal handler, the poll bound of 200000 as a proxy for non-termination. Inputs nested deeper than 64 brackets are discarded (the property's bound).",
         "DESIGN.md §5 C05"),
 "C06": ("exploration",
         "reference-checker differential with single-fault injection over generated valid programs",
         "Generated valid programs must load (a rejection is reported with its diagnostic); the same programs with exactly one rule violation injected from the catalogue at a random stanza, block depth and position, the offending value routed through 0-3 bindings / calls / list literals, must be rejected with the check-error variant of that rule, naming the variable or capture, at the offending token or its enclosing condition, comprehension, statement or stanza. The reference checker (harness/src/refcheck.rs) decides validity and discards candidates that do not carry exactly one violation.",
         "Trusted: the reference checker written from the reference's rules; CheckError is private to the library, so its variant and location are read from its Debug rendering. Known finding D16 (shorthand bodies unchecked) pinned.",
         "DESIGN.md §5 C06"),
 "C07": ("exploration",
         "round-trip property testing: print generated programs with a random layout, parse, compare with the AST and locations the printer recorded",
         "Free-form programs over every statement and expression form (and checker-valid generated programs) are printed with random whitespace, comments, line breaks, string escapes and trailing commas, then parsed (parse-only entry, or File::from_str); globals, inherit names, shorthands, statements and every recorded Location must equal the AST built from the printer's own record, by the AST's PartialEq.",
         "Trusted: the harness printer (harness/src/dsl.rs) as the definition of 'as written'. A bare `global name` is followed by plain whitespace; scoped-variable locations are those of the name token.",
         "DESIGN.md §5 C07"),
 "C08": ("exploration",
         "metamorphic testing: every permutation of a file's stanzas (all n! for small n, sampled beyond) executed lazily and compared with the file order",
         "Accepted files with cross-stanza dependencies (scoped-variable scenarios, generated programs) are executed lazily in file order and under all stanza permutations (n <= 4 quick, n <= 5 thorough; reversal + samples beyond); Ok/Err must be the same and graphs isomorphic. A permutation is a different processing schedule of the same matches, so exhaustive permutation of small files is the natural exploration.",
         "Trusted: graph isomorphism (budgeted). Known finding D16 is pinned and excluded by construction.",
         "DESIGN.md §5 C08"),
 "C09": ("exploration",
         "model-based testing over histories: pre-populated graph + 1-3 execute_into calls, map/set graph model advanced by the reference interpreter, isomorphism with existing nodes fixed",
         "Histories on one graph (API pre-population with attributed edges, then up to three execute_into calls in either mode with collision-heavy generated programs and existing nodes handed back as globals) are compared after every call with a map/set model: existing nodes, edges and attribute values intact, new nodes numbered after them, one edge per pair, ascending edge iteration, conflicts fail. Exploration over histories is the right level for a stateful accumulation contract.",
         "Trusted: the reference interpreter, graph isomorphism with a pinned prefix. Generated histories use one tree (sixteen fixed histories use three different trees and files); state after a failed call only checked structurally.",
         "DESIGN.md §5 C09"),
 "C10": ("exploration",
         "reference-model property testing of scan: generated arm lists x subjects, spec-style matching oracle, both interpreters",
         "Generated arm lists (regex language with classes, alternation, optional groups, anchors, multi-byte literals, occasional assertions) and subjects are run through a program whose arm blocks record arm number and every $k in a chain of nodes; strict and lazy results are compared with the reference interpreter's spec-style scan; nullable regexes must be rejected at load; a poll-bound breach is reported as non-termination. Exploration is the right level: the matching order is defined for all strings and arm lists.",
         "Trusted: regex crate (matching itself), the scan model in harness/src/interp.rs. With \\b/^ arms the restart context is unspecified: per-arm search on the suffix is used and ambiguous empty matches are counted inconclusive.",
         "DESIGN.md §5 C10"),
 "C11": ("fault_enumeration",
         "exhaustive fault enumeration: cancel at every poll index k of each generated (program, tree, mode) run",
         "For each generated program/tree/mode the uncancelled run is counted (N polls, equal to the NoCancellation result, at least the reference interpreter's statement + attribute + scan-iteration (+ match) count), then EVERY k in 1..N is run with a flag failing from poll k: the result must be the Cancelled error itself, exactly k polls, no later evaluation (a registered tick function observes that). The k dimension is enumerated completely per pair, so fault_enumeration is the right level; the set of pairs is sampled.",
         "Trusted: harness CancellationFlag / Function implementations, the reference interpreter's trace for the lower bound. Pairs above 400 (quick) / 2000 (thorough) polls are skipped and counted.",
         "DESIGN.md §5 C11"),
 "C12": ("exploration",
         "metamorphic testing over repetitions, execution histories, threads and processes: every result must equal the isolated result of a freshly loaded file on a fresh thread",
         "Per case 1-3 generated files x 1-3 trees: double loads, isolated results computed twice on fresh threads, a history of mixed / failing / cancelled executions on a long-lived thread with the files loaded once, 8 concurrent threads sharing one &File, caller's Variables compared before and after every run, and 3-8 child processes given the same seed that must print identical transcripts. All observable forms are compared (pretty text, JSON value, observed graph with numbering, error text).",
         "Trusted: thread schedules are whatever the OS produces (smoke level for real races); hash-order effects are reached because every HashMap instance has its own RandomState. Known finding: printed order of sets of syntax nodes is address-dependent.",
         "DESIGN.md §5 C12"),
 "C13": ("exploration",
         "reference-model property testing of the stdlib (generated argument tuples vs an independent model of the documented contracts)",
         "Every call Functions::stdlib().call(name, args) over generated argument tuples (every Value variant, boundary integers, brace / regex / non-ASCII strings, every kind of syntax node incl. root, anonymous and ERROR nodes) is compared with a model written from src/reference/functions.rs: same value, or an error exactly where the contract is broken, never a panic. Exploration is the right level: contracts are stated per function over all values, the functions are small and pure, and a model differential at ~600k calls per quick run reaches the boundary classes.",
         "Trusted: the stdlib model (harness/src/stdlib.rs), regex crate (replace is defined by it), tree-sitter node accessors. Sets containing syntax nodes are not generated.",
         "DESIGN.md §5 C13"),
 "C14": ("exploration",
         "round-trip property testing: serialise, parse with an own strict JSON parser, decode, compare with the public-API observation; own pretty renderer",
         "Graphs built through the public API and graphs produced by executing generated programs are serialised; the JSON must be valid, structurally exact (ids, edge order, no duplicate keys or set elements) and decode to exactly what the in-memory API reports; pretty_print must equal an independent rendering. Exploration is the right level for an encoder over an unbounded value space.",
         "Trusted: the harness JSON parser and decoder (harness/src/rawjson.rs, props/c14.rs), serde_json as the serialiser back end. Pretty form compared only when attribute names are identifiers and no set holds two syntax-node-bearing elements (address-ordered).",
         "DESIGN.md §5 C14"),
 "C18": ("exploration",
         "independent recomputation (recursive Node::child walk) over fault-injected sources, incl. cross-thread moves and Display totality",
         "Sources with 0-6 injected syntax faults are parsed; first/all/into_first/into_all must report exactly the outermost ERROR and MISSING nodes in document order (the owning variants after being moved to another thread) and both Display forms must return and cite line and column. Exploration is the right level: trees are an unbounded input space and the oracle is a ten-line recursive walk.",
         "Trusted: tree-sitter's Node API (is_error, is_missing, child). Thread moves exercise Send only in the schedules the OS produces.",
         "DESIGN.md §5 C18"),
 "C19": ("exploration",
         "black-box differential: the CLI binary (built from /repo with --features cli) as a child process vs the in-process library result, over generated inputs and option sets",
         "Generated (DSL, source) pairs incl. rejected files, failing executions and sources with syntax errors are run through the CLI under combinations of --lazy, --json, --output, --quiet, --allow-parse-errors and --global; exit status, stdout, stderr and the output file must match what the library computes in-process (pretty text exactly, JSON as parsed values with syntax-node ids normalised).",
         "Trusted: tree-sitter-loader finding the Python grammar prepared under /verif/.work; --output only together with --json (the argument parser requires it). Text comparison skipped for graphs with address-ordered sets.",
         "DESIGN.md §5 C19"),
 "C20": ("exploration",
         "reference-model fault injection: one run-time fault at a generated statement position and depth, error context compared with the reference interpreter's failure site",
         "Valid generated programs with exactly one injected run-time fault are executed in both modes on trees with many matches; the returned error must be a statement context that names the stanza, the matched node and the failing statement (strict: exactly the reference interpreter's first failure site; lazy: consistent with the cited stanza, and for two-statement conflicts exactly the two conflicting statements), and display_pretty must show the cited DSL and source lines.",
         "Trusted: the reference interpreter's failure site, printer locations. The Context type is private to the library, so contexts are read from the error's Debug rendering.",
         "DESIGN.md §5 C20"),
 "C15": ("exploration",
         "differential testing between configurations (debug attributes off / on, both modes) plus expected attribute values from the reference interpreter's record of node and edge origins",
         "Generated programs (half collision-heavy) are executed in both modes with and without the debug-attribute configuration: same Ok/Err, stripping the three attributes gives exactly the plain graph, nodes from `node` statements carry variable text, 1-based line/column of the variable and the stanza's matched node, edges carry the location of a creating `edge` statement.",
         "Trusted: the printer's locations (cross-checked by C07), the reference interpreter's origin trace. Under a non-identity renumbering an edge location belonging to another executed edge statement is inconclusive.",
         "DESIGN.md §5 C15"),
 "C16": ("exploration",
         "exhaustive enumeration of the declaration x supply x mode product and of the static rules, plus reference-model testing of generated programs",
         "Every declaration (4 quantifiers x default or not) x 13 supply patterns x 2 modes, for one global and for all pairs of two globals (21,840 runs), is executed and checked against the contract (missing-global / list errors, value seen at every block depth and stanza, caller's inner and outer Variables unchanged); every static rule x every declaration is checked at load (or run time for shorthand variables); generated programs that read globals at every depth are compared with the reference interpreter in both modes. The finite parts are exhaustive on every run; the generated part is exploration.",
         "Trusted: the contract model in props/c16.rs and the reference interpreter. A `*`/`+` global that is absent but defaulted evaluates to the default string (list requirement applies to supplied values).",
         "DESIGN.md §5 C16"),
 "C17": ("exploration",
         "stateful model-based property testing (proptest-driven op sequences vs BTreeMap models)",
         "Generated operation histories (<=200 ops, biased to spill the 8-slot inline edge vector, repeat sinks and conflict attributes) are run against the real containers and a BTreeMap model; every return value and periodic full scans are compared. Exploration is the right level: the contract is over all histories of a small pure data structure, where a model differential finds ordering/spill/overwrite slips quickly; it does not prove absence.",
         "Trusted: proptest, std BTreeMap, the harness model. Adding to a nested Variables a name bound only in the outer set is treated as unspecified (either result accepted).",
         "DESIGN.md §5 C17"),
}

NOT_YET = "check not built yet in this session (planned in DESIGN.md §5); listed here until its command exists"

def main():
    props = [json.loads(l) for l in open(os.path.join(ROOT, "properties.jsonl"))]
    checks, na = [], []
    for p in props:
        pid = p["id"]
        if CHECKS.get(pid):
            cat, tech, text, note, ref = CHECKS[pid]
            checks.append({
                "property_id": pid,
                "quick_cmd": f"./check {pid} quick",
                "thorough_cmd": f"./check {pid} thorough",
                "evidence_file": f"/verif/evidence/{pid}.json",
                "replay_cmd_template": f"./check {pid} --replay {{path}}",
                "engine": "tsgv",
                "level_claimed": {"category": cat, "text": text, "design_ref": ref},
                "level_note": note,
                "technique": tech,
            })
        else:
            na.append({"property_id": pid, "reason": NOT_YET})
    manifest = {
        "version": 1,
        "setup_cmd": "./setup.sh",
        "hooks": {
            "guard": "tsg_verif",
            "enable": "none needed: every observation point is public API; checks build /repo unmodified through a cargo path dependency (a --cfg tsg_verif guard is reserved but unused)",
            "baseline_off_cmd": "cd /repo && cargo test --workspace --no-fail-fast --offline",
            "source_commits": [],
            "add_only": True,
        },
        "engines": [
            {"name": "tsgv", "path": "/verif/harness", "serves_properties": sorted(k for k in CHECKS if CHECKS[k]),
             "kind_free_text": "Rust harness: proptest-driven choice tapes, reference models, shrinking, replay"},
            {"name": "tsgv-fuzz", "path": "/verif/fuzz", "serves_properties": ["C05", "C18"],
             "kind_free_text": "cargo-fuzz / libFuzzer targets (c05_load_exec, c05_tape, c18_parse_errors) that call the harness library; built and driven by the thorough tiers of C05 and C18"},
        ],
        "checks": checks,
        "not_applicable": na,
        "notes": "All checks: ./check <ID> quick|thorough (exit 0 held, 1 VIOLATION, 2 harness problem/inconclusive). VERIF_SEED selects the PRNG stream; VERIF_HANG_SECS (default 600) is the per-case watchdog (exit 2). Known findings: /verif/known_findings.json. Sensitivity material: /verif/seeded (325 sub-agent changes with demonstrations and meta.json), /verif/mutants (patches; mutants/iso.sh runs one without touching /repo).",
    }
    with open(os.path.join(ROOT, "MANIFEST.json"), "w") as f:
        json.dump(manifest, f, indent=1)
        f.write("\n")

if __name__ == "__main__":
    main()
