#!/bin/bash
# Prepares what the CLI checks (C19) need under /verif/.work: the binary built from /repo's working
# tree with --features cli, a parser directory with the Python grammar from the cargo registry, and
# a tree-sitter config pointing at it.  Idempotent; offline.
set -e
here="$(cd "$(dirname "$0")/.." && pwd)"
work="$here/.work"
mkdir -p "$work/parsers" "$work/ts-config" "$work/ts-lib" "$work/c19"
if [ ! -d "$work/parsers/tree-sitter-python" ]; then
  src="$(ls -d "$HOME"/.cargo/registry/src/*/tree-sitter-python-0.23.5 2>/dev/null | head -1)"
  if [ -z "$src" ]; then echo "tree-sitter-python-0.23.5 not found in the cargo registry" >&2; exit 2; fi
  cp -r "$src" "$work/parsers/tree-sitter-python"
fi
printf '{"parser-directories":["%s"]}\n' "$work/parsers" > "$work/ts-config/config.json"
(cd "${VERIF_REPO:-/repo}" && CARGO_NET_OFFLINE=true cargo build --offline --features cli --target-dir "$work/cli-target" 2>&1 | grep -v conda | grep -E "^(error|warning: unused)" -A6 | head -40) || true
test -x "$work/cli-target/debug/tree-sitter-graph" || { echo "CLI build failed" >&2; exit 2; }
# first run compiles the grammar into ts-lib
echo "pass" > "$work/c19/warm.py"; echo '(module) @m { node @m.n }' > "$work/c19/warm.tsg"
TREE_SITTER_DIR="$work/ts-config" TREE_SITTER_LIBDIR="$work/ts-lib" "$work/cli-target/debug/tree-sitter-graph" "$work/c19/warm.tsg" "$work/c19/warm.py" >/dev/null 2>"$work/c19/warm.err" || { echo "CLI warm-up failed:" >&2; cat "$work/c19/warm.err" >&2; exit 2; }
