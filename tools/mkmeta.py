#!/usr/bin/env python3
"""tools/mkmeta.py <seed-dir-name> <property> <json-with-change/needs/checks_run/detected_by/strengthened>
Writes seeded/<name>/meta.json from the confirmation files left by tools/seeded.sh."""
import json, sys, os, re
name, prop, extra = sys.argv[1], sys.argv[2], json.loads(sys.argv[3])
d = os.path.join(os.path.dirname(os.path.abspath(__file__)), '..', 'seeded', name)
def rd(f):
    p = os.path.join(d, f)
    return open(p).read().strip() if os.path.exists(p) else ''
def short(s):
    return '; '.join(re.findall(r'(?:ok|FAILED)\. \d+ passed; \d+ failed', s))
meta = {
    "origin": "sub-agent, given only the property text and a scratch worktree",
    "property": prop,
    "change": extra["change"],
    "needs_to_manifest": extra["needs"],
    "confirmed": {
        "suite_with_change (162 tests, doctest, then the demo target)": short(rd('.suite')),
        "demo_with_change": short(rd('.with')),
        "demo_without_change": short(rd('.without')),
    },
    "checks_run": extra["checks_run"],
    "detected_by": extra["detected_by"],
}
if extra.get("strengthened"):
    meta["strengthened"] = extra["strengthened"]
json.dump(meta, open(os.path.join(d, 'meta.json'), 'w'), indent=1)
for f in ('.suite', '.with', '.without', '.results'):
    p = os.path.join(d, f)
    if os.path.exists(p): os.remove(p)
print("wrote", os.path.join(d, 'meta.json'))
