#!/usr/bin/env python3
"""mkmutant.py <name> <file-relative-to-/repo> <old> <new> [count]
Creates /verif/mutants/<name>.patch by replacing <old> with <new> in the file (exactly once unless
count is given), then restores /repo."""
import subprocess, sys
name, rel, old, new = sys.argv[1:5]
count = int(sys.argv[5]) if len(sys.argv) > 5 else 1
path = "/repo/" + rel
s = open(path).read()
if s.count(old) < 1:
    sys.exit(f"pattern not found in {rel}")
if count == 1 and s.count(old) != 1:
    sys.exit(f"pattern occurs {s.count(old)} times in {rel}")
open(path, "w").write(s.replace(old, new, count))
diff = subprocess.run(["git", "-C", "/repo", "diff"], capture_output=True, text=True).stdout
subprocess.run(["git", "-C", "/repo", "checkout", "--", rel], check=True)
open(f"/verif/mutants/{name}.patch", "w").write(diff)
print(f"wrote /verif/mutants/{name}.patch ({len(diff.splitlines())} lines)")
