#!/bin/bash
# tools/seeded.sh <worktree> <seed-name> <ID> [<ID>...]     (SLOT=<name> selects the mutants/iso.sh slot)
# Confirms a sub-agent's seeded change (suite passes with it; demo fails with it and passes without),
# stores it under /verif/seeded/<seed-name>/, runs the given checks against it, removes the worktree.
wt="$1"; name="$2"; shift 2
export RUST_BACKTRACE=0 CARGO_NET_OFFLINE=true
dest=/verif/seeded/$name; mkdir -p "$dest"
cd "$wt" || exit 2
cp SEEDED/patch.diff "$dest/patch.diff"; cp SEEDED/seeded_demo.rs "$dest/seeded_demo.rs" 2>/dev/null || cp tests/seeded_demo.rs "$dest/seeded_demo.rs"
cp SEEDED/NOTES.md "$dest/NOTES.agent.md" 2>/dev/null
for f in SEEDED/*; do case "$(basename "$f")" in patch.diff|seeded_demo.rs|NOTES.md) ;; *) cp -r "$f" "$dest/" ;; esac; done
# state 1: change applied
git checkout -q -- . ; git clean -fdq -e SEEDED -e target
git apply "$dest/patch.diff" || { echo "PATCH DOES NOT APPLY"; exit 2; }
cp "$dest/seeded_demo.rs" tests/seeded_demo.rs
suite=$(cargo test --workspace --no-fail-fast --offline 2>&1 | grep -E "^test result" | tr '\n' ' ')
with=$(cargo test --offline --test seeded_demo 2>&1 | grep -E "^test result" | tr '\n' ' ')
git checkout -q -- src
without=$(cargo test --offline --test seeded_demo 2>&1 | grep -E "^test result" | tr '\n' ' ')
echo "suite with change   : $suite"
echo "demo  with change   : $with"
echo "demo  without change: $without"
cd /verif
results=""
for id in "$@"; do
  out=$(timeout 2400 mutants/iso.sh "${SLOT:-seed}" "$dest/patch.diff" "$id" 2>&1 | grep -v "^KNOWN-FINDING")
  echo "$out" | tail -6
  code=$(echo "$out" | grep -o "exit=[0-9]*" | tail -1)
  results="$results $id:$code"
done
echo "CHECKS:$results"
printf '%s\n' "$suite" > "$dest/.suite"; printf '%s\n' "$with" > "$dest/.with"; printf '%s\n' "$without" > "$dest/.without"; printf '%s\n' "$results" > "$dest/.results"
git -C /repo worktree remove --force "$wt" && echo "worktree removed"
