#!/usr/bin/env python3
"""tools/remeta.py <seed-name> <check label> <result> [<ID detected> ...] [--strengthened TEXT]
Adds a later check run to seeded/<name>/meta.json."""
import json, sys, os
args = sys.argv[1:]
strengthened = None
if '--strengthened' in args:
    i = args.index('--strengthened'); strengthened = args[i + 1]; args = args[:i] + args[i + 2:]
name, label, result, ids = args[0], args[1], args[2], args[3:]
p = os.path.join(os.path.dirname(os.path.abspath(__file__)), '..', 'seeded', name, 'meta.json')
m = json.load(open(p))
first = {k: (v + ' - MISSED' if v.startswith('exit 0') and 'MISSED' not in v else v) for k, v in m['checks_run'].items()}
first = {(k + ' (first version)' if 'MISSED' in v and 'version' not in k else k): v for k, v in first.items()}
first[label] = result
m['checks_run'] = first
for i in ids:
    if i not in m['detected_by']: m['detected_by'].append(i)
if strengthened: m['strengthened'] = strengthened
json.dump(m, open(p, 'w'), indent=1)
